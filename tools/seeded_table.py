#!/usr/bin/env python3
"""Print the markdown table of seeded changes for DESIGN.md 8.6 from seeded/*/m*/{meta,result*}.json."""
import glob, json, os, re
ROOT = '/verif/seeded'
# what had to be strengthened for changes the first version of a check missed (kept by hand)
STRENGTHENED = {
 'C03/m3': 'smoother families dealt out systematically (incl. 2-iteration chebyshev/richardson) + post-smoother affinity test; C09 oracle now also starts from the zero guess',
 'C04/m1': 'AIR with filter_operator added (finest level must keep the user values, user matrix untouched)',
 'C04/m3': '2-candidate SA constructor, BSR inputs forced, explicit max_coarse stopping rule in the oracle',
 'C05/m2': 'directed per-level lists (shorter list extended by its last entry, one attribute differing)',
 'C05/m3': 'dense-oracle classes now per (f_iterations, c_iterations); cf/fc pairs always kept in the quick tier',
 'C06/m1': "'rr+' runs start from far initial guesses so that the moving threshold matters (failing input instead of correspondence only)",
 'C08/m2': 'badly scaled problems large enough for a real multilevel iteration in the black-box oracle',
 'C08/m3': 'badly scaled hierarchies and small maxiter for the named accelerators',
 'C10/m1': 'filtered Jacobi with degree 2 and 3',
 'C10/m2': 'finiteness of T / coarse candidates checked explicitly (NaN-blind comparison found and fixed in all oracles)',
 'C10/m3': 'root-node with naive / Lloyd aggregation (roots not in index order)',
 'C11/m1': 'row-sum check for modified classical interpolation (failing input instead of correspondence only)',
 'C11/m3': 'explicit-theta oracle (theta = 0 and 0.25 with an unrelated strength matrix passed in)',
 'C14/m1': 'BSR block-wise nodal-rule oracle',
 'C14/m2': 'scale-invariance oracle (powers of two)',
 'C15/m1': 'AIR with filter_operator in the setup-purity check',
 'C15/m2': 'directed history: accelerated solve with cycle V then W',
 'C15/m3': 'CLJP / CLJPc / PMISc / Lloyd constructors in the reproducibility check',
 'C16/m1': 'singular matrix with its zero rows/columns stored as explicit zeros',
 'C19/m1': 'scaling vectors of a wider dtype than the matrix',
 'C19/m2': 'oracle for filtering relative to the diagonal, rows without stored diagonal',
 'C19/m3': 'rectangular (wide and tall) matrices in the filtering oracle',
 'C20/m3': 'diffusion stencils modelled op-by-op (bit-exact tie) + exactness-on-quadratics oracle and theorems',
 'C02/m2': 'complex Hermitian hierarchies with a multi-unknown coarsest level, coarse solvers dealt out',
 'C01/m2': 'zero right-hand side with no initial guess',
 'C02/m4': 'several iterations of Chebyshev / Richardson in the smoother family, dealt out systematically',
 'C02/m6': 'genuine 2x2 block Gauss-Seidel smoothers (blocksize 1 is replaced by the point method in the setup); nonzero right-hand side with the guess at the solution',
 'C03/m5': 'spy accelerator: the operator handed over by solve(accel=..., cycle=...) must be M of that cycle',
 'C03/m6': 'one call with maxiter=1 from a guess already within the default tolerance',
 'C04/m4': 'CLJP / PMISc / RS with a strength threshold that leaves no strong connection (all-C / all-F stalls)',
 'C04/m5': 'MultilevelSolver built from hand-made levels without R (complex Hermitian, real, BSR)',
 'C04/m6': 'inputs rescaled by 2^-60 and 2^60; Galerkin tolerance relative to |R||A||P| (no absolute term)',
 'C05/m6': 'oracle problem stored in 2x2 blocks (BSR kernels)',
 'C06/m4': 'fixed ill-conditioned probe (cond 1e8, tol 1e-12): status 0 must survive recomputation of the residual',
 'C06/m5': 'every call repeated with only a callback, only a history list, and neither',
 'C07/m4': 'operator storage alternates between dense and CSR (complex sparse adjoint path)',
 'C07/m5': 'preconditioned CGNR / CGNE checked against their preconditioned Krylov spaces (failing input instead of correspondence only)',
 'C09/m4': 'zero initial guess combined with 2-3 iterations (systematic, was by chance)',
 'C09/m5': 'every public call gets a fresh copy of the matrix with shuffled column order (an earlier call had sorted it in place)',
 'C10/m4': 'polynomial identity fitted for Richardson and for every degree',
 'C10/m5': 'block / diagonal / local weighting on a BSR problem rescaled per unknown (diagonal blocks not multiples of the identity)',
 'C13/m4': 'strength values with S_ij = -S_ji (cancel in S + S^T) and random nonzero values',
 'C13/m6': '400 random directed patterns on 5-7 vertices',
 'C15/m4': 'constructors with Jacobi local / block / filtered, Richardson, energy smoothing, evolution strength, candidate improvement',
 'C15/m5': 'constructors with relaxation-type coarse solvers',
 'C16/m4': 'nonsingular matrices that cannot be solved without pivoting',
 'C16/m6': 'integer right-hand sides and real right-hand sides for complex matrices (direct solvers)',
 'C17/m4': 'dense-GMRES AIR paths with maxiter below the local system size in the sanitizer corpus',
 'C18/m4': 'RCM on the same pattern with nonsymmetric values',
 'C19/m4': 'condest on 1D Poisson and a periodic stencil',
 'C19/m5': 'block pseudo-inverse of blocks scaled by 2^-45 and 2^40',
 'C19/m6': 'inverse / plain / inverse call sequence on one BSR object',
 'C20/m6': 'FE Poisson: tensor-product spectrum and zero interior row sums',
 'C01/m9': 'right-hand sides of norm 1e-10 and 1e+12 (the criterion is relative for every nonzero b)',
 'C02/m7': 'one-level hierarchies: a cycle from any guess must land on the direct solution',
 'C02/m8': 'complex Hermitian problems stored in BSR with point Gauss-Seidel on the blocks',
 'C03/m7': 'presmoother None on 3+ level hierarchies under W and F cycles (second visit of a coarse level)',
 'C03/m8': 'mixed dtypes: real right-hand side with complex guess on a complex hierarchy (and vice versa)',
 'C03/m9': 'cf_jacobi / fc_jacobi smoothers on CSR levels with C/F splitting kept by the builder',
 'C04/m7': 'constructors with strength=None (C is A itself): user matrix must be untouched, finest level must equal it',
 'C04/m8': 'adaptive SA: stopping rule of the returned hierarchy checked in both units (nodes / unknowns) against max_levels',
 'C05/m7': 'polynomial smoothers with several iterations counted as their own class; zero guess + nonzero continuation',
 'C05/m9': 'W-cycle on 4-level problems compared with the dense W recursion (3 levels cannot tell W from W-then-V)',
 'C06/m7': 'zero right-hand side with a nonzero initial guess for every method',
 'C06/m9': "guess near the solution under every criterion with a preconditioner far from the identity ('MrMr' initial test)",
 'C07/m7': 'restarted FGMRES / GMRES over several cycles against the per-cycle least-squares optimum',
 'C07/m9': 'GMRES variants with a callback (callback branch shares the reduced right-hand side)',
 'C08/m7': 'periodic nonsymmetric M-matrices with equal row and column sums (constant vector cannot see the asymmetry)',
 'C08/m9': 'spy accelerators returning -1 / 0 / 7: the status must be handed through unchanged',
 'C09/m7': 'schwarz called twice on one matrix object with two subdomain layouts of equal sizes',
 'C09/m8': 'block sizes 7 and 8 with complex Hermitian / nonsymmetric diagonal blocks',
 'C09/m9': 'systems scaled by 2^-60 (2^-30 single) in kernel correspondence and public oracle',
 'C10/m7': 'energy smoothing with degree 0: T handed in must come back untouched, T B_c unchanged',
 'C10/m8': 'BSR prolongators with more columns per block than candidates (satisfy_constraints stride)',
 'C11/m7': 'local AIR for CSC / COO inputs (implicit conversion path), unsorted CSR',
 'C12/m7': "Lloyd with measure 'min' (zero-length edges) and with stored zeros",
 'C13/m7': 'random symmetric patterns on 8-24 vertices (bucket bookkeeping needs larger degree spread)',
 'C13/m9': 'strength matrices with stored zeros on the diagonal and nonsymmetric patterns for CLJP / CLJPc',
 'C14/m7': 'complex BSR inputs under the symmetric measure (block Frobenius norm of complex blocks)',
 'C14/m8': 'rows with negative diagonals dominating -a_ik under the min-norm classical measure',
 'C15/m7': 'user matrices holding entries below 1e-16 (rescaled problems) in the purity check',
 'C15/m8': 'dtype of every level compared across storage formats (float32, int, complex64)',
 'C15/m9': 'Jacobi / block Jacobi / Richardson / Chebyshev smoothers in the reusable-solver check with an unrelated RNG state between solves',
 'C16/m7': 'solver keyword arguments forwarded (cholesky lower=True, lu / splu options)',
 'C16/m8': 'pinv on the 36-point Neumann problem and matrices with a cluster of tiny singular values; least-squares reference',
 'C17/m7': 'filter_operator / satisfy_constraints on rectangular BSR blocks with more columns than candidates, under ASan',
 'C17/m8': 'graph kernels on all-equal weights (ties): the livelock shows as the overflow of its round counter (UBSan) or as a timeout',
 'C17/m9': 'every relaxation kernel on empty sweep ranges under LSan',
 'C18/m7': 'Bellman-Ford on weights scaled by 2^-50 (absolute tolerances show) and zero weights, own reference',
 'C19/m7': 'condest against dense cond on structured matrices up to 18x18 (Lanczos loses orthogonality there)',
 'C19/m9': 'filtering with dyadic thresholds and gallery matrices: entries exactly on the threshold stay',
 'C20/m7': '3-D diffusion stencil: consistency on all quadratic monomials for rotated tensors (found F25 on the way)',
 'C20/m8': 'stencil_grid linear in the stencil: stencils scaled by 2^-40 and 2^40',
 'C20/m9': 'linear_elasticity against an independent Q1 plane-strain assembly for several (E, nu)',
}
rows = []
for mdir in sorted(glob.glob(ROOT + '/C*/m*')):
    pid, mk = mdir.split('/')[-2:]
    meta = json.load(open(mdir + '/meta.json')) if os.path.exists(mdir + '/meta.json') else {}
    res = None
    for fn in ('result_par.json', 'result.json'):
        if os.path.exists(os.path.join(mdir, fn)):
            res = json.load(open(os.path.join(mdir, fn)))
            break
    files = ', '.join(os.path.basename(f) for f in meta.get('files', []))
    desc = re.sub(r'\s+', ' ', meta.get('description', ''))[:150]
    if res is None:
        out = 'not run'
    elif res['detected']:
        out = 'caught' + ('' if res['failing_input'] else ' (proof/correspondence only)')
    else:
        out = 'MISSED'
    rows.append('| %s/%s | %s | %s | %s | %s |' % (pid, mk, files, desc.replace('|', '/'), out, STRENGTHENED.get('%s/%s' % (pid, mk), '')))
print('| change | file | what | result | strengthened after a first miss |')
print('|---|---|---|---|---|')
print('\n'.join(rows))
