#!/usr/bin/env python3
"""Print the markdown table of seeded changes for DESIGN.md 8.6 from seeded/*/m*/{meta,result*}.json."""
import glob, json, os, re
ROOT = '/verif/seeded'
# what had to be strengthened for changes the first version of a check missed (kept by hand)
STRENGTHENED = {
 'C03/m3': 'smoother families dealt out systematically (incl. 2-iteration chebyshev/richardson) + post-smoother affinity test; C09 oracle now also starts from the zero guess',
 'C04/m1': 'AIR with filter_operator added (finest level must keep the user values, user matrix untouched)',
 'C04/m3': '2-candidate SA constructor, BSR inputs forced, explicit max_coarse stopping rule in the oracle',
 'C05/m2': 'directed per-level lists (shorter list extended by its last entry, one attribute differing)',
 'C05/m3': 'dense-oracle classes now per (f_iterations, c_iterations); cf/fc pairs always kept in the quick tier',
 'C06/m1': "'rr+' runs start from far initial guesses so that the moving threshold matters (failing input instead of correspondence only)",
 'C08/m2': 'badly scaled problems large enough for a real multilevel iteration in the black-box oracle',
 'C08/m3': 'badly scaled hierarchies and small maxiter for the named accelerators',
 'C10/m1': 'filtered Jacobi with degree 2 and 3',
 'C10/m2': 'finiteness of T / coarse candidates checked explicitly (NaN-blind comparison found and fixed in all oracles)',
 'C10/m3': 'root-node with naive / Lloyd aggregation (roots not in index order)',
 'C11/m1': 'row-sum check for modified classical interpolation (failing input instead of correspondence only)',
 'C11/m3': 'explicit-theta oracle (theta = 0 and 0.25 with an unrelated strength matrix passed in)',
 'C14/m1': 'BSR block-wise nodal-rule oracle',
 'C14/m2': 'scale-invariance oracle (powers of two)',
 'C15/m1': 'AIR with filter_operator in the setup-purity check',
 'C15/m2': 'directed history: accelerated solve with cycle V then W',
 'C15/m3': 'CLJP / CLJPc / PMISc / Lloyd constructors in the reproducibility check',
 'C16/m1': 'singular matrix with its zero rows/columns stored as explicit zeros',
 'C19/m1': 'scaling vectors of a wider dtype than the matrix',
 'C19/m2': 'oracle for filtering relative to the diagonal, rows without stored diagonal',
 'C19/m3': 'rectangular (wide and tall) matrices in the filtering oracle',
 'C20/m3': 'diffusion stencils modelled op-by-op (bit-exact tie) + exactness-on-quadratics oracle and theorems',
 'C02/m2': 'complex Hermitian hierarchies with a multi-unknown coarsest level, coarse solvers dealt out',
 'C01/m2': 'zero right-hand side with no initial guess',
}
rows = []
for mdir in sorted(glob.glob(ROOT + '/C*/m*')):
    pid, mk = mdir.split('/')[-2:]
    meta = json.load(open(mdir + '/meta.json')) if os.path.exists(mdir + '/meta.json') else {}
    res = None
    for fn in ('result.json', 'result_par.json'):
        if os.path.exists(os.path.join(mdir, fn)):
            res = json.load(open(os.path.join(mdir, fn)))
            break
    files = ', '.join(os.path.basename(f) for f in meta.get('files', []))
    desc = re.sub(r'\s+', ' ', meta.get('description', ''))[:150]
    if res is None:
        out = 'not run'
    elif res['detected']:
        out = 'caught' + ('' if res['failing_input'] else ' (proof/correspondence only)')
    else:
        out = 'MISSED'
    rows.append('| %s/%s | %s | %s | %s | %s |' % (pid, mk, files, desc.replace('|', '/'), out, STRENGTHENED.get('%s/%s' % (pid, mk), '')))
print('| change | file | what | result | strengthened after a first miss |')
print('|---|---|---|---|---|')
print('\n'.join(rows))
