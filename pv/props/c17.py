"""C17 -- native kernels stay inside their arrays for every well-formed input."""
import glob
import json
import os
import pickle
import re
import shutil
import subprocess
import time

import numpy as np

from .. import core
from .. import coqrun as cq
from .. import gen

TECHNIQUE = ('Coq proofs about bounds-checked twins of the kernel models (unbounded for the CSR relaxation sweeps, aggregation, BFS, serial MIS and '
             'the Ruge-Stuben buckets) + sanitizer-instrumented execution of all 66 kernels as correspondence / failing-input search')
LEVEL_TEXT = ('Kernel-checked theorems (Props/C17.v) about CHECKED twins of the kernel models, in which every array access goes '
              'through a bounds-checked get/set and the result is None at the first access outside an array: for EVERY '
              'structurally valid CSR matrix (any size; empty rows, missing or zero diagonals, unsorted / repeated columns) '
              'and every list of rows inside [0,n) -- in particular the forward and backward sweep ranges the callers pass -- '
              'the checked gauss_seidel, sor_gauss_seidel, jacobi and the indexed gauss_seidel_indexed / jacobi_indexed (any index array with entries in [0,n)) never leave their arrays and return exactly what the '
              'bit-exact kernel models of C09 return; naive and standard aggregation (the -n sentinel arithmetic, ids shifted in place, y written at next-1 / next) '
              'likewise for every structurally valid CSR graph of any size, symmetric or not; maximal_independent_set_serial likewise (any marker values, any starting state of x); breadth_first_search likewise (order[N] is written '
              'only while fewer than n vertices are labelled, any seed in range); for the Ruge-Stuben first pass (lambda buckets sized '
              'max(2*lambda_max, n+1), the "//invalid write!" site) the same holds for every pair of valid CSR patterns S, T '
              '(any size, not necessarily transposes of each other) and every nonnegative influence vector, by the bucket '
              'invariant kept through the counting sort, incr_lambda, decr_lambda and the removal of the top node (and, as a '
              'cross-check, on all 133 small patterns x influence vectors in {0,1,3}^n by vm_compute); the second pass of direct and '
              'of classical interpolation produces for every row exactly the entries the first pass reserved (P.indices / P.data '
              'are allocated with P.indptr[n] entries by the callers), for any number of rows.  The twins are tied to the working-tree kernels on both sides: on '
              'valid inputs their output equals the kernel output bit for bit, and on inputs with an index one step outside an '
              'array they return None exactly where AddressSanitizer stops the real kernel.  For all other kernels the '
              'property is decided by execution only: every one of the 66 exported kernels is run from the working-tree '
              'headers under AddressSanitizer + UndefinedBehaviorSanitizer + LeakSanitizer, through the Python callers (so '
              'every buffer is sized as they size it), over the complete enumeration of small graphs and structured random '
              'CSR/BSR inputs, each run under a time limit.')
LEVEL_NOTE = ('Proof covers 10 of 66 kernels (gauss_seidel, sor_gauss_seidel, jacobi, gauss_seidel_indexed, jacobi_indexed, naive_aggregation, standard_aggregation, breadth_first_search, maximal_independent_set_serial, rs_cf_splitting; all unbounded; plus the slot-count theorem for rs_direct / rs_classical interpolation pass 1/2 at the level of the C11 row models).  For the other 56 the sanitizer run is an oracle, not a '
              'proof; it is the search that produces failing inputs.  Memory safety of the C++ text itself is never proved: '
              'the theorems are about Gallina twins tied to the code by correspondence.  Lloyd clustering is exercised with '
              'positive weights only (its documented domain): zero-weight edges lead to duplicate centres and a heap '
              'overflow in center_nodes (see DESIGN.md, observation O1).')
RULE = ('sanitizer run: complete enumeration of symmetric graphs on 1..4 (5 thorough) vertices x 3 value decorations, directed '
        'patterns on <= 3 vertices x diagonal, structured random CSR (empty/dense rows, missing/zero diagonals, unsorted '
        'columns, stored zeros), gallery problems; per matrix ~250 public operations (strength, splitting, interpolation, AIR, '
        'aggregation, tentative prolongator, prolongation smoothing, every relaxation method and block size, graph '
        'algorithms, sparse/dense helpers) + full solver setups/solves; evaluations = kernel calls executed under the '
        'sanitizers + checked-twin cases; distinct = distinct (kernel, input matrix) pairs')
RULE += (' '
         'Corpus incl. dense-GMRES AIR paths (maxiter below / at the local size, CSR and BSR).')
TRUSTED = ['GCC 12 AddressSanitizer / UndefinedBehaviorSanitizer / LeakSanitizer runtimes (oracle side)',
           'NumPy allocates each array with malloc of its exact byte size (so the red zones start at the array ends)']
PARTIAL = ['56 of 66 kernels: sanitizer oracle only, no theorem',
           'termination: time limit per run, plus structural recursion of the models; no termination theorem for the C++ loops']
REFUTED = []
HEADER = ('From Coq Require Import ZArith List Bool PrimFloat.\nImport ListNotations.\n'
          'Require Import PV.Base.Ops PV.Model.ChkRun.\nOpen Scope Z_scope.\n')
COQ_DEPS = ['Model/ChkRun.vo']
LIBASAN = '/usr/lib/gcc/x86_64-linux-gnu/12/libasan.so'
I32 = np.int32


# ------------------------------------------------------------ sanitizer runs
def san_env(asan_dir, leaks=True):
    env = dict(os.environ)
    env.update(LD_PRELOAD=LIBASAN, PYAMG_VERIF_CORE_DIR=asan_dir, PYTHONPATH=core.VERIF + ':' + core.REPO,
               ASAN_OPTIONS='detect_leaks=%d:exitcode=66:abort_on_error=0:allocator_may_return_null=1' % (1 if leaks else 0),
               UBSAN_OPTIONS='print_stacktrace=1:halt_on_error=1:exitcode=67',
               LSAN_OPTIONS='exitcode=0:max_leaks=0', OMP_NUM_THREADS='1', PYTHONHASHSEED='0', PYTHONWARNINGS='ignore')
    return env


def classify(stderr):
    """(kind, kernel, excerpt) of the first sanitizer report in stderr, or None"""
    m = re.search(r'ERROR: AddressSanitizer: ([A-Za-z0-9_-]+)', stderr)
    kind = None
    pos = None
    if m:
        kind, pos = m.group(1), m.start()
    m2 = re.search(r'runtime error: ([^\n]*)', stderr)
    if m2 and (pos is None or m2.start() < pos):
        kind, pos = 'ubsan:' + re.sub(r'0x[0-9a-f]+|\d+', 'N', m2.group(1))[:60].strip().replace(' ', '-'), m2.start()
    if kind is None:
        return None
    tail = stderr[pos:pos + 6000]
    km = re.search(r' in (?:void |bool |int |[A-Za-z_:<>]+ )?([A-Za-z_0-9]+)<[^\n]*?/pyamg/amg_core/([a-z_]+\.h):(\d+)', tail)
    kernel = km.group(1) if km else 'unknown'
    where = '%s:%s' % (km.group(2), km.group(3)) if km else ''
    return kind, kernel, where, tail[:2500]


def kernel_leaks(stderr):
    """leak reports whose allocation stack passes through a kernel header"""
    res = []
    for block in re.split(r'\n\s*\n', stderr):
        if 'leak of' in block:
            m = re.search(r'/pyamg/amg_core/([a-z_]+\.h):(\d+)', block)
            if m:
                km = re.search(r' in (?:void |bool |int )?([A-Za-z_0-9]+)<', block)
                res.append((km.group(1) if km else 'unknown', '%s:%s' % (m.group(1), m.group(2)), block[:1500]))
    return res


def load_last(path):
    try:
        rec = pickle.load(open(path, 'rb'))
    except Exception:
        return None
    args = []
    for a in rec['args']:
        if isinstance(a, np.ndarray):
            args.append(dict(dtype=str(a.dtype), shape=list(a.shape),
                             data=[[x.real, x.imag] for x in a.ravel()] if a.dtype.kind == 'c' else a.ravel().tolist()))
        elif isinstance(a, (bool, np.bool_)):
            args.append(dict(scalar=bool(a), type='bool'))
        elif isinstance(a, (int, np.integer)):
            args.append(dict(scalar=int(a), type='int'))
        elif isinstance(a, (float, np.floating)):
            args.append(dict(scalar=float(a).hex(), type='float'))
        elif isinstance(a, (complex, np.complexfloating)):
            args.append(dict(scalar=[a.real, a.imag], type='complex'))
        else:
            args.append(dict(scalar=str(a), type='str'))
    return dict(kernel=rec['kernel'], input=rec['case'], args=args)


def rebuild_args(spec):
    out = []
    for a in spec:
        if 'dtype' in a:
            if a['dtype'].startswith('complex'):
                arr = np.array([complex(r, i) for r, i in a['data']], dtype=a['dtype'])
            else:
                arr = np.array(a['data'], dtype=a['dtype'])
            out.append(arr.reshape(a['shape']))
        elif a['type'] == 'float':
            out.append(float.fromhex(a['scalar']))
        elif a['type'] == 'complex':
            out.append(complex(*a['scalar']))
        elif a['type'] == 'bool':
            out.append(bool(a['scalar']))
        elif a['type'] == 'int':
            out.append(int(a['scalar']))
        else:
            out.append(a['scalar'])
    return out


def san_corpus(ctx, asan_dir, attempt=1):
    K = 16
    stale = False
    out = os.path.join(core.VERIF, 'build', 'run', 'c17_' + ctx.tier + core.TAG + '_' + core.RUNID)
    shutil.rmtree(out, ignore_errors=True)
    os.makedirs(out)
    env = san_env(asan_dir)
    limit = 900 if not ctx.thorough else 3 * 3600
    procs = []
    for k in range(K):
        cmd = [core.PY, '-m', 'pv.sandriver', '--out', out, '--part', '%d/%d' % (k, K), '--tier', ctx.tier,
               '--seed', str(ctx.seed)]
        errf = open(os.path.join(out, 'part_%d.err' % k), 'w')
        procs.append((k, subprocess.Popen(cmd, cwd=core.VERIF, env=env, stdout=subprocess.DEVNULL, stderr=errf), errf))
    t0 = time.time()
    calls, ops, exc = {}, {}, {}
    kernels = set()
    ncases = 0
    for k, p, errf in procs:
        timed_out = False
        try:
            p.wait(timeout=max(5, limit - (time.time() - t0)))
        except subprocess.TimeoutExpired:
            p.kill()
            p.wait()
            timed_out = True
        errf.close()
        err = open(os.path.join(out, 'part_%d.err' % k), errors='replace').read()
        err = '\n'.join(l for l in err.split('\n') if not l.startswith(('Warning :', 'Outer denominator', 'Inner denominator')))
        last = load_last(os.path.join(out, 'part_%d.last.pkl' % k))
        rep = classify(err)
        if rep:
            kind, kernel, where, excerpt = rep
            if kernel == 'unknown' and last:
                kernel = last['kernel']
            ctx.fail('san/%s/%s' % (kernel, kind), '%s in %s (%s)' % (kind, kernel, where),
                     dict(last_call=last, report=excerpt))
            continue
        if timed_out:
            ctx.fail('san/%s/timeout' % (last['kernel'] if last else 'unknown'),
                     'no termination within %d s (last kernel call attached)' % limit, dict(last_call=last))
            continue
        pj = os.path.join(out, 'part_%d.json' % k)
        if p.returncode != 0 or not os.path.exists(pj):
            ctx.fail('san/%s/died-rc=%s' % (last['kernel'] if last else 'unknown', p.returncode),
                     'driver process died without a sanitizer report', dict(last_call=last, stderr=err[-2000:]))
            continue
        if 'leak of' in err and re.search(r'\(/[^)\n]*/build/core/[^)\n]*\+0x[0-9a-f]+\)', err):
            stale = True              # frames inside the kernel build that could not be symbolized (build directory gone)
        for kernel, where, block in kernel_leaks(err):
            ctx.fail('san/%s/leak' % kernel, 'memory allocated at %s is never released' % where, dict(report=block))
        d = json.load(open(pj))
        ncases += d['cases']
        kernels |= set(d['kernels'])
        for src, dst in ((d['calls'], calls), (d['ops'], ops), (d['exc'], exc)):
            for key, v in src.items():
                dst[key] = dst.get(key, 0) + v
    if stale or not os.path.exists(os.path.join(asan_dir, 'OK')):
        # the sanitizer build disappeared under the run (cache eviction by a concurrent check): leak reports are
        # symbolized from the files at exit, so this run proves nothing about leaks -- rebuild and repeat once
        if attempt == 1:
            ctx.notes.append('sanitizer build vanished during the run; rebuilt and repeated')
            return san_corpus(ctx, core.native_build(asan=True), attempt=2)
        ctx.disagree('sanitizer reports symbolized against the kernel build', dict(build=asan_dir), 'build present', 'build vanished twice')
    total = sum(calls.values())
    ctx.evaluations += total
    for kname, v in calls.items():
        ctx.count('kernel_calls/' + kname, v)
    ctx.count('sanitizer/input_matrices', ncases)
    ctx.count('sanitizer/python_level_rejections', sum(exc.values()))
    for kname in calls:
        for i in range(min(calls[kname], ncases)):
            ctx.nontrivial.add('%s/%d' % (kname, i))
    missing = sorted(kernels - set(calls))
    ctx.notes.append('sanitizer run: %d kernel calls over %d inputs; %d/%d exported kernels executed%s; Python-level '
                     'rejections (not memory errors): %s' % (total, ncases, len(set(calls) & kernels), len(kernels),
                                                            (' (never reached: %s)' % missing) if missing else '',
                                                            json.dumps(dict(sorted(exc.items())))[:600]))
    ctx.samples.append(dict(kernel_calls=dict(sorted(calls.items()))))
    if kernels and missing and not ctx.failures:
        ctx.disagree('sanitizer corpus reaches every exported kernel', dict(missing=missing), 'all kernels', 'missing')
    ctx.corr_relations.append('all exported kernels executed under ASan+UBSan+LSan with caller-sized buffers: no report')
    if not ctx.failures:
        shutil.rmtree(out, ignore_errors=True)


def run_one_under_asan(asan_dir, rec, tag, timeout=120):
    """run a single kernel call (dict kernel,args,case) in a sanitizer subprocess -> (report or None, stderr)"""
    d = os.path.join(core.VERIF, 'build', 'run', 'c17_single' + core.TAG + '_' + core.RUNID)
    os.makedirs(d, exist_ok=True)
    path = os.path.join(d, tag + '.pkl')
    with open(path, 'wb') as f:
        pickle.dump(rec, f, protocol=4)
    p = subprocess.run([core.PY, '-m', 'pv.sandriver', '--replay', path], cwd=core.VERIF, env=san_env(asan_dir, leaks=False),
                       capture_output=True, text=True, timeout=timeout)
    return classify(p.stderr), p.returncode, p.stdout


# ------------------------------------------------------- checked-twin cases
def relax_case(kind, zs, fs, zls, fls, expected):
    exp = 'None' if expected is None else '(Some %s)' % cq.fll(expected)
    return '(%d%%nat, %s, %s, %s, %s, %s)' % (kind, cq.zl(zs), cq.fll(fs), cq.lst([cq.zl(l) for l in zls]),
                                              cq.lst([cq.fll(l) for l in fls]), exp)


def twin_valid(ctx):
    """valid inputs: checked twin == kernel, bit for bit"""
    from pyamg import amg_core
    rng = ctx.sub('twin')
    cases = []
    reps = 150 if not ctx.thorough else 1500
    for r in range(reps):
        n = rng.choice([1, 2, 3, 4, 5, 7, 9])
        rows = gen.random_pattern_rows(rng, n, rng.choice([0.0, 0.3, 0.7, 1.0]), gen.DYADIC,
                                       diag=rng.choice(['all', 'none', 'mixed', 'zero']), shuffle=True, zero_prob=0.1)
        if n > 1 and rng.random() < 0.3:
            rows[rng.randrange(n)] = []
        A = gen.csr_from_rows(n, rows)
        Ap, Aj, Ax = A.indptr.astype(I32), A.indices.astype(I32), A.data.astype(float)
        x = np.array([rng.choice(gen.DYADIC) for _ in range(n)], dtype=float)
        b = np.array([rng.choice(gen.DYADIC) for _ in range(n)], dtype=float)
        om = rng.choice([0.5, 1.0, 1.25])
        for rng3 in ((0, n, 1), (n - 1, -1, -1)):
            xx = x.copy()
            amg_core.gauss_seidel(Ap, Aj, Ax, xx, b, *rng3)
            cases.append(relax_case(0, rng3, [], [Ap, Aj], [Ax, x, b], xx))
            xx = x.copy()
            amg_core.sor_gauss_seidel(Ap, Aj, Ax, xx, b, *rng3, om)
            cases.append(relax_case(1, rng3, [om], [Ap, Aj], [Ax, x, b], xx))
            xx = x.copy()
            temp = np.zeros(n)
            amg_core.jacobi(Ap, Aj, Ax, xx, b, temp, *rng3, np.array([om]))
            cases.append(relax_case(3, rng3, [om], [Ap, Aj], [Ax, x, b, np.zeros(n)], xx))
            ctx.case(('twin', r, rng3), nontrivial=A.nnz > 0)
        # the indexed kernels: a random subset of the rows, in any order, possibly with repetitions
        idx = np.array([rng.randrange(n) for _ in range(rng.choice([0, 1, n, n + 2]))], dtype=I32)
        m = len(idx)
        for rng3 in ((0, m, 1), (m - 1, -1, -1)):
            xx = x.copy()
            amg_core.gauss_seidel_indexed(Ap, Aj, Ax, xx, b, idx, *rng3)
            cases.append(relax_case(7, rng3, [], [Ap, Aj, idx], [Ax, x, b], xx))
        xx = x.copy()
        amg_core.jacobi_indexed(Ap, Aj, Ax, xx, b, idx, np.array([om]))
        cases.append(relax_case(5, (0, 0, 0), [om], [Ap, Aj, idx], [Ax, x, b], xx))
        ctx.case(('twin-indexed', r, idx.tobytes()), nontrivial=A.nnz > 0 and m > 0)
    bad, errs = cq.run_cases('c17_twin', HEADER, 'ccaseT float', 'cchkF', cases)
    for e in errs:
        ctx.disagree('C17 twin evaluation', None, e, None)
    for i in bad:
        ctx.disagree('checked twin (gauss_seidel / sor / jacobi) = kernel on valid CSR, bit-exact', dict(index=i), '?', cases[i][:600])
    ctx.count('twin/valid_cases', len(cases))
    ctx.corr_relations.append('checked relaxation twins == working-tree kernels on valid CSR (bit-exact)')


def twin_rs(ctx):
    """rs_cf_splitting: checked twin == kernel on the exhaustive patterns, with influence vectors"""
    from pyamg import amg_core
    cases = []
    rng = ctx.sub('twinrs')
    nmax = 3
    graphs = []
    for n in range(1, nmax + 1):
        for arcs in gen.all_directed_patterns(n):
            graphs.append((n, arcs))
    for edges in gen.all_sym_graphs(4):
        graphs.append((4, [(i, j) for i, j in edges] + [(j, i) for i, j in edges]))
    if ctx.thorough:
        for edges in gen.all_sym_graphs(5):
            graphs.append((5, [(i, j) for i, j in edges] + [(j, i) for i, j in edges]))
    for gi, (n, arcs) in enumerate(graphs):
        S = gen.digraph_csr(n, arcs)
        T = gen.csr_from_rows(n, gen.rows_of(S.T.tocsr()))
        Sp, Sj, Tp, Tj = S.indptr.astype(I32), S.indices.astype(I32), T.indptr.astype(I32), T.indices.astype(I32)
        for infl in ([0] * n, [1] * n, [rng.choice([0, 1, 3]) for _ in range(n)], [n + 1] * n):
            infl_a = np.array(infl, dtype=I32)
            spl = np.full(n, -7, dtype=I32)
            amg_core.rs_cf_splitting(n, Sp, Sj, Tp, Tj, infl_a, spl)
            cases.append('(%s, %s, Some %s)' % (cq.z(n), cq.lst([cq.zl(l) for l in (Sp, Sj, Tp, Tj, infl_a)]), cq.zl(spl)))
            ctx.case(('rs', gi, tuple(infl)), nontrivial=len(arcs) > 0)
    bad, errs = cq.run_cases('c17_rs', HEADER, '(Z * list (list Z) * option (list Z))%type', 'rs_chk_case', cases)
    for e in errs:
        ctx.disagree('C17 rs twin evaluation', None, e, None)
    for i in bad:
        ctx.disagree('checked rs_cf_splitting twin = kernel (all patterns x influence vectors)', dict(index=i), '?', cases[i][:600])
    ctx.count('twin/rs_cases', len(cases))
    ctx.corr_relations.append('checked rs_cf_splitting twin == working-tree kernel on every small pattern x influence')


def twin_agg(ctx):
    """standard / naive aggregation: checked twin == kernel on every small symmetric graph"""
    from pyamg import amg_core
    cases = []
    nmax = 5 if ctx.thorough else 4
    gi = 0
    for n in range(1, nmax + 1):
        for edges in gen.all_sym_graphs(n):
            for diag in (False, True):
                G = gen.graph_csr(n, edges, diag=diag)
                Ap, Aj = G.indptr.astype(I32), G.indices.astype(I32)
                for kind, f in ((0, amg_core.standard_aggregation), (1, amg_core.naive_aggregation)):
                    x = np.full(n, -9, dtype=I32)
                    y = np.full(n, -7, dtype=I32)
                    c = f(n, Ap, Aj, x, y)
                    cases.append('(%d%%nat, %s, %s, Some (%s, %s, %s))' % (
                        kind, cq.z(n), cq.lst([cq.zl(Ap), cq.zl(Aj), cq.zl([-7] * n)]), cq.zl(x), cq.zl(y), cq.z(int(c))))
                    ctx.case(('agg', gi, kind), nontrivial=len(edges) > 0)
                gi += 1
    bad, errs = cq.run_cases('c17_agg', HEADER, '(nat * Z * list (list Z) * option (list Z * list Z * Z))%type',
                             'agg_chk_case', cases)
    for e in errs:
        ctx.disagree('C17 aggregation twin evaluation', None, e, None)
    for i in bad:
        ctx.disagree('checked aggregation twin = kernel (all symmetric graphs)', dict(index=i), '?', cases[i][:600])
    ctx.count('twin/agg_cases', len(cases))
    ctx.corr_relations.append('checked standard/naive aggregation twins == working-tree kernels on every small symmetric graph')


def twin_malformed(ctx, asan_dir):
    """indices one step outside an array: the twin must say None exactly where ASan stops the kernel"""
    n = 3
    Ap = np.array([0, 2, 3, 5], dtype=I32)
    Aj = np.array([0, 1, 1, 0, 2], dtype=I32)
    Ax = np.array([2.0, -1.0, 2.0, -1.0, 2.0])
    x = np.array([1.0, 2.0, 3.0])
    b = np.ones(3)
    muts = []
    Aj1 = Aj.copy()
    Aj1[1] = 3
    muts.append(('column-index-n', 0, (0, 3, 1), [], Ap, Aj1, Ax, x, b))
    Aj2 = Aj.copy()
    Aj2[3] = -1
    muts.append(('column-index-minus-1', 0, (0, 3, 1), [], Ap, Aj2, Ax, x, b))
    muts.append(('row-range-past-end', 0, (0, 4, 1), [], Ap, Aj, Ax, x, b))
    Ap2 = Ap.copy()
    Ap2[3] = 6
    muts.append(('row-pointer-past-nnz', 0, (0, 3, 1), [], Ap2, Aj, Ax, x, b))
    muts.append(('x-too-short', 0, (0, 3, 1), [], Ap, Aj, Ax, x[:2].copy(), b))
    muts.append(('sor/column-index-n', 1, (2, -1, -1), [1.25], Ap, Aj1, Ax, x, b))
    muts.append(('jacobi/row-range-past-end', 3, (0, 4, 1), [0.5], Ap, Aj, Ax, x, b))
    muts.append(('valid-control', 0, (0, 3, 1), [], Ap, Aj, Ax, x, b))
    idx_ok = np.array([2, 0, 1], dtype=I32)
    idx_bad = np.array([2, 3, 1], dtype=I32)
    muts.append(('gs-indexed/index-entry-n', 7, (0, 3, 1), [], Ap, Aj, Ax, x, b, idx_bad))
    muts.append(('gs-indexed/position-past-index-array', 7, (0, 4, 1), [], Ap, Aj, Ax, x, b, idx_ok))
    muts.append(('gs-indexed/valid-control', 7, (2, -1, -1), [], Ap, Aj, Ax, x, b, idx_ok))
    muts.append(('jacobi-indexed/index-entry-n', 5, (0, 0, 0), [0.5], Ap, Aj, Ax, x, b, idx_bad))
    muts.append(('jacobi-indexed/column-index-n', 5, (0, 0, 0), [0.5], Ap, Aj1, Ax, x, b, idx_ok))
    muts.append(('jacobi-indexed/valid-control', 5, (0, 0, 0), [0.5], Ap, Aj, Ax, x, b, idx_ok))
    kern = {0: 'gauss_seidel', 1: 'sor_gauss_seidel', 3: 'jacobi', 5: 'jacobi_indexed', 7: 'gauss_seidel_indexed'}
    cases, tags = [], []
    for mut in muts:
        tag, kind, r3, fs, ap, aj, ax, xx, bb = mut[:9]
        idx_ = mut[9] if len(mut) > 9 else None
        if kind == 7:
            args = [ap, aj, ax, xx.copy(), bb, idx_] + list(r3)
        elif kind == 5:
            args = [ap, aj, ax, xx.copy(), bb, idx_, np.array(fs)]
        else:
            args = [ap, aj, ax, xx.copy(), bb] + ([np.zeros(len(xx))] if kind == 3 else []) + list(r3) + ([np.array(fs)] if kind == 3 else list(fs))
        rep, rc, out = run_one_under_asan(asan_dir, dict(kernel=kern[kind], args=tuple(args), case='malformed/' + tag),
                                          'mal_' + tag.replace('/', '_'))
        ctx.case(('malformed', tag))
        ctx.count('twin/malformed/' + ('sanitizer-report' if rep else 'clean'))
        if rep is None and tag != 'valid-control' and 'returned normally' not in out:
            ctx.notes.append('malformed case %s: process ended rc=%s without report' % (tag, rc))
        if rep:
            expected = None
        else:
            # no report: compare against the real (uninstrumented) kernel output, the twin must agree with Some
            from pyamg import amg_core
            a2 = [a.copy() if isinstance(a, np.ndarray) else a for a in args]
            getattr(amg_core, kern[kind])(*a2)
            expected = a2[3]
        fls = [ax, xx, bb] + ([np.zeros(len(xx))] if kind == 3 else [])
        cases.append(relax_case(kind, r3, fs, [ap, aj] + ([idx_] if idx_ is not None else []), fls, expected))
        tags.append((tag, rep[0] if rep else None))
    bad, errs = cq.run_cases('c17_mal', HEADER, 'ccaseT float', 'cchkF', cases)
    for e in errs:
        ctx.disagree('C17 malformed twin evaluation', None, e, None)
    for i in bad:
        ctx.disagree('checked twin returns None exactly where the sanitizer stops the kernel (one-step-outside inputs)',
                     dict(case=tags[i][0], sanitizer=tags[i][1]), 'twin', cases[i][:400])
    ctx.corr_relations.append('twin = None  <=>  AddressSanitizer report, on inputs with an index one step outside an array')


def twin_bfs(ctx, asan_dir):
    """breadth_first_search: checked twin == kernel on every small graph and seed; None exactly where ASan stops it"""
    from pyamg import amg_core
    cases, tags = [], []
    graphs = []
    for n in range(1, (5 if ctx.thorough else 4) + 1):
        for edges in gen.all_sym_graphs(n):
            graphs.append((n, list(edges) + [(j, i) for i, j in edges]))
    for n in (2, 3):
        for arcs in gen.all_directed_patterns(n):
            graphs.append((n, list(arcs)))
    for gi, (n, arcs) in enumerate(graphs):
        G = gen.digraph_csr(n, arcs)
        Ap, Aj = G.indptr.astype(I32), G.indices.astype(I32)
        for seed in range(n):
            order = np.full(n, -7, dtype=I32)
            level = np.full(n, -1, dtype=I32)
            amg_core.breadth_first_search(Ap, Aj, seed, order, level)
            reached = int(np.sum(level >= 0))
            cases.append('(%s, %s, %s, Some %s)' % (cq.z(n), cq.lst([cq.zl(Ap), cq.zl(Aj), cq.zl([-7] * n)]), cq.z(seed),
                                                   cq.zl([reached] + order[:reached].tolist() + level.tolist())))
            tags.append(('valid', gi, seed))
            ctx.case(('bfs-twin', gi, seed), nontrivial=len(arcs) > 0)
    # one step outside an array (run under the sanitizer build in a child process)
    Ap = np.array([0, 1, 3, 4], dtype=I32)          # path 0 - 1 - 2
    Aj = np.array([1, 0, 2, 1], dtype=I32)
    mal = []
    Aj1 = Aj.copy()
    Aj1[2] = 3
    mal.append(('bfs/column-index-n', Ap, Aj1, 0, 3))
    Ap1 = Ap.copy()
    Ap1[3] = 5
    mal.append(('bfs/row-pointer-past-nnz', Ap1, Aj, 0, 3))
    mal.append(('bfs/order-too-short', Ap, Aj, 0, 2))
    mal.append(('bfs/seed-n', Ap, Aj, 3, 3))
    mal.append(('bfs/valid-control', Ap, Aj, 1, 3))
    for tag, ap, aj, seed, olen in mal:
        order = np.full(olen, -7, dtype=I32)
        level = np.full(3, -1, dtype=I32)
        rep, rc, out = run_one_under_asan(asan_dir, dict(kernel='breadth_first_search', args=(ap, aj, seed, order.copy(), level.copy()),
                                                         case='malformed/' + tag), 'mal_' + tag.replace('/', '_'))
        ctx.case(('malformed', tag))
        ctx.count('twin/malformed/' + ('sanitizer-report' if rep else 'clean'))
        if rep:
            exp = 'None'
        else:
            o2, l2 = order.copy(), level.copy()
            amg_core.breadth_first_search(ap, aj, seed, o2, l2)
            reached = int(np.sum(l2 >= 0))
            exp = 'Some %s' % cq.zl([reached] + o2[:reached].tolist() + l2.tolist())
        cases.append('(%s, %s, %s, %s)' % (cq.z(3), cq.lst([cq.zl(ap), cq.zl(aj), cq.zl([-7] * olen)]), cq.z(seed), exp))
        tags.append((tag, rep[0] if rep else None))
    bad, errs = cq.run_cases('c17_bfs', HEADER, '(Z * list (list Z) * Z * option (list Z))%type', 'bfs_chk_case', cases, shard=800)
    for e in errs:
        ctx.disagree('C17 BFS twin evaluation', None, e, None)
    for i in bad:
        ctx.disagree('checked breadth_first_search twin == kernel (valid graphs) / None <=> sanitizer report (malformed)',
                     dict(case=str(tags[i])), 'twin', cases[i][:400])
    ctx.count('twin/bfs_cases', len(cases))
    ctx.corr_relations.append('checked breadth_first_search twin == working-tree kernel on every small graph and seed; None <=> sanitizer report')


def twin_mis(ctx, asan_dir):
    """maximal_independent_set_serial: checked twin == kernel on every small graph (several marker triples and starting
    states); None exactly where ASan stops it"""
    from pyamg import amg_core
    cases, tags = [], []
    graphs = []
    for n in range(1, (5 if ctx.thorough else 4) + 1):
        for edges in gen.all_sym_graphs(n):
            graphs.append((n, list(edges) + [(j, i) for i, j in edges]))
    for n in (2, 3):
        for arcs in gen.all_directed_patterns(n):
            graphs.append((n, list(arcs)))
    rng = ctx.sub('twinmis')
    for gi, (n, arcs) in enumerate(graphs):
        G = gen.digraph_csr(n, arcs)
        Ap, Aj = G.indptr.astype(I32), G.indices.astype(I32)
        for (act, C_, F_) in ((-1, 1, 0), (5, 7, 9)):
            x0 = np.array([act if rng.random() < 0.8 else rng.choice([C_, F_, 3]) for _ in range(n)], dtype=I32)
            x = x0.copy()
            N_ = amg_core.maximal_independent_set_serial(n, Ap, Aj, act, C_, F_, x)
            cases.append('(%s, %s, %s, Some %s)' % (cq.z(n), cq.lst([cq.zl(Ap), cq.zl(Aj), cq.zl(x0)]), cq.zl([act, C_, F_]),
                                                   cq.zl([int(N_)] + x.tolist())))
            tags.append(('valid', gi, act))
            ctx.case(('mis-twin', gi, act, x0.tobytes()), nontrivial=len(arcs) > 0)
    Ap = np.array([0, 1, 3, 4], dtype=I32)          # path 0 - 1 - 2
    Aj = np.array([1, 0, 2, 1], dtype=I32)
    mal = []
    Aj1 = Aj.copy()
    Aj1[0] = 3
    mal.append(('mis/column-index-n', Ap, Aj1, 3, 3))
    Ap1 = Ap.copy()
    Ap1[3] = 6
    mal.append(('mis/row-pointer-past-nnz', Ap1, Aj, 3, 3))
    mal.append(('mis/x-too-short', Ap, Aj, 3, 2))
    mal.append(('mis/valid-control', Ap, Aj, 3, 3))
    for tag, ap, aj, nn, xlen in mal:
        x0 = np.full(xlen, -1, dtype=I32)
        rep, rc, out = run_one_under_asan(asan_dir, dict(kernel='maximal_independent_set_serial', args=(nn, ap, aj, -1, 1, 0, x0.copy()),
                                                         case='malformed/' + tag), 'mal_' + tag.replace('/', '_'))
        ctx.case(('malformed', tag))
        ctx.count('twin/malformed/' + ('sanitizer-report' if rep else 'clean'))
        if rep:
            exp = 'None'
        else:
            x = x0.copy()
            N_ = amg_core.maximal_independent_set_serial(nn, ap, aj, -1, 1, 0, x)
            exp = 'Some %s' % cq.zl([int(N_)] + x.tolist())
        cases.append('(%s, %s, %s, %s)' % (cq.z(nn), cq.lst([cq.zl(ap), cq.zl(aj), cq.zl(x0)]), cq.zl([-1, 1, 0]), exp))
        tags.append((tag, rep[0] if rep else None))
    bad, errs = cq.run_cases('c17_mis', HEADER, '(Z * list (list Z) * list Z * option (list Z))%type', 'mis_chk_case', cases, shard=800)
    for e in errs:
        ctx.disagree('C17 MIS twin evaluation', None, e, None)
    for i in bad:
        ctx.disagree('checked maximal_independent_set_serial twin == kernel (valid graphs) / None <=> sanitizer report (malformed)',
                     dict(case=str(tags[i])), 'twin', cases[i][:400])
    ctx.count('twin/mis_cases', len(cases))
    ctx.corr_relations.append('checked maximal_independent_set_serial twin == working-tree kernel on every small graph; None <=> sanitizer report')


def run(ctx):
    try:
        asan_dir = core.native_build(asan=True)
    except SystemExit:
        ctx.disagree('sanitizer build of the working-tree kernels', {}, 'builds', 'does not build')
        return
    # the sanitizer corpus first: it runs every kernel in instrumented subprocesses, so an out-of-bounds access is reported with its
    # input; the twin correspondences below call the kernels of the plain build inside this process and would simply die on
    # a heap overflow (reported as abnormal termination, without an input).  They are skipped when the corpus already has reports.
    san_corpus(ctx, asan_dir)
    if ctx.failures:
        ctx.notes.append('sanitizer reports on the corpus: the in-process twin correspondences (plain build) were not run')
        shutil.rmtree(os.path.join(core.VERIF, 'build', 'run', 'c17_single' + core.TAG + '_' + core.RUNID), ignore_errors=True)
        return
    twin_valid(ctx)
    twin_rs(ctx)
    twin_agg(ctx)
    twin_malformed(ctx, asan_dir)
    twin_bfs(ctx, asan_dir)
    twin_mis(ctx, asan_dir)
    shutil.rmtree(os.path.join(core.VERIF, 'build', 'run', 'c17_single' + core.TAG + '_' + core.RUNID), ignore_errors=True)


def search(ctx):
    """a broken proof / twin correspondence: the sanitizer corpus IS the failing-input search; run it in the thorough
    size if the quick one found nothing"""
    if ctx.failures or ctx.thorough:
        return
    try:
        asan_dir = core.native_build(asan=True)
    except SystemExit:
        return
    ctx.notes.append('search: sanitizer corpus already ran in this check without a report')


def replay(ctx, data):
    asan_dir = core.native_build(asan=True)
    case = data.get('case') or {}
    last = case.get('last_call') if isinstance(case, dict) else None
    if not last:
        run(ctx)
        return
    rec = dict(kernel=last['kernel'], args=tuple(rebuild_args(last['args'])), case=last.get('input'))
    rep, rc, out = run_one_under_asan(asan_dir, rec, 'replay')
    ctx.case(('replay', last['kernel']))
    if rep:
        ctx.fail('san/%s/%s' % (rep[1] if rep[1] != 'unknown' else last['kernel'], rep[0]),
                 '%s in %s (%s)' % (rep[0], rep[1], rep[2]), dict(last_call=last, report=rep[3]))
    else:
        core.log('replay: kernel %s returned without a sanitizer report (rc=%s)' % (last['kernel'], rc))
