"""C14 -- strength-of-connection contract and rules."""
import numpy as np
import scipy.sparse as sp

from .. import coqrun as cq
from .. import gen

RULE = ('structured CSR matrices (n<=8; unsorted rows, empty rows, missing / zero diagonals, positive '
        'off-diagonals, exact ties at theta*max): (a) the three native kernels and the three Python '
        'pipelines vs the Gallina model, bit-exact at the PrimFloat instance and exact at the Q instance; '
        '(b) oracle: dense restatement of the contract and of the rules, monotonicity over a theta grid, '
        'theta=0; contract oracle on evolution/energy/distance/affinity/algebraic_distance and BSR inputs. '
        'A case is non-trivial when the matrix has an off-diagonal entry; distinct = distinct '
        '(kind, theta, matrix).')
THOROUGH_ROUNDS = 2
TRUSTED = ['SciPy csr_array construction, eliminate_zeros, sparsetools csr_scale_rows (modelled as a*x[i])',
           'NumPy abs and 1.0/x on float64 (single IEEE operations)']
PARTIAL = ['evolution / energy / distance / affinity / algebraic-distance measures: only the common '
           'contract is decided, by the oracle (their numerics are not modelled)',
           'complex data and BSR block reductions: oracle only (model is real CSR)']
REFUTED = ['C14_classical_min_theta0_refuted (F10: norm=min, theta=0 drops positive off-diagonals)']
NOT_COVERED = ['rounding: the theorems are about exact arithmetic; float behaviour enters through the '
               'bit-exact PrimFloat correspondence']
ASSUMPTIONS = ['"keeps a diagonal entry wherever the input has one" is read as: wherever the stored '
               'diagonal is nonzero (eliminate_zeros removes explicit zeros by design)']
TECHNIQUE = 'Coq proof of the threshold rules + bit-exact model/implementation correspondence'
LEVEL_TEXT = ('Kernel-checked theorems (Props/C14.v, closed under the global context) about the Gallina model of the '
              'classical (abs/min) and symmetric strength kernels and of the Python tail: iff-characterisations with the '
              'row maximum as least upper bound, pattern containment, monotonicity in theta, theta=0, entries in [0,1], '
              'row maximum 1, nonzero diagonal kept -- for every matrix over any ordered field.  The same Gallina '
              'definitions are evaluated (vm_compute) at PrimFloat and Q on the inputs the rebuilt working-tree kernels '
              'and pyamg.strength ran on and must agree bit-for-bit; an independent dense oracle decides the property '
              'on every generated case and supplies the failing input.')
LEVEL_NOTE = ('Exact-arithmetic theorems; float behaviour only through the bit-exact correspondence.  Other measures '
              '(evolution, energy, distance, affinity, algebraic distance), BSR reductions and complex data: common '
              'contract decided by the oracle only.  Trusted: Coq kernel + vm_compute, harness, minipb rebuild, SciPy '
              'csr construction / eliminate_zeros / csr_scale_rows.')
HEADER = ('From Coq Require Import ZArith List QArith PrimFloat.\nImport ListNotations.\n'
          'Require Import PV.Base.Ops PV.Model.StrengthRun.\nOpen Scope Z_scope.\n')
TINY = np.finfo(float).tiny


def impl_kernel(kind, A, theta):
    from pyamg import amg_core
    n = A.shape[0]
    Sp = np.empty_like(A.indptr)
    Sj = np.empty_like(A.indices)
    Sx = np.empty_like(A.data)
    fn = [amg_core.classical_strength_of_connection_abs, amg_core.classical_strength_of_connection_min,
          amg_core.symmetric_strength_of_connection][kind]
    fn(n, theta, A.indptr, A.indices, A.data, Sp, Sj, Sx)
    nnz = int(Sp[n])
    return Sp.tolist(), Sj[:nnz].tolist(), Sx[:nnz].tolist()


def impl_pipeline(kind, A, theta):
    from pyamg import strength
    if kind == 3:
        S = strength.classical_strength_of_connection(A, theta, norm='abs')
    elif kind == 4:
        S = strength.classical_strength_of_connection(A, theta, norm='min')
    else:
        S = strength.symmetric_strength_of_connection(A, theta)
    return S.indptr.tolist(), S.indices.tolist(), S.data.tolist()


def term(kind, A, theta, out, lit, litl):
    n = A.shape[0]
    return '(%d%%nat, %s, %s, (%s, %s, %s), (%s, %s, %s))' % (
        kind, cq.z(n), lit(theta), cq.zl(A.indptr), cq.zl(A.indices), litl(A.data),
        cq.zl(out[0]), cq.zl(out[1]), litl(out[2]))


# ----------------------------------------------------------------------- oracle
def nz_pattern(A):
    A = sp.csr_array(A)
    return {(i, int(A.indices[k])) for i in range(A.shape[0])
            for k in range(A.indptr[i], A.indptr[i + 1]) if A.data[k] != 0}


def stored_pattern(A):
    A = sp.csr_array(A)
    return {(i, int(A.indices[k])) for i in range(A.shape[0]) for k in range(A.indptr[i], A.indptr[i + 1])}


def contract(ctx, name, A_nodal_pattern, diag_nonzero, S, case):
    """the common contract of every strength measure"""
    S = sp.csr_array(S)
    pat = stored_pattern(S)
    if not pat <= A_nodal_pattern:
        ctx.fail(name + '/pattern-not-subset', 'pattern(S) not contained in pattern(A): %s'
                 % sorted(pat - A_nodal_pattern)[:4], case)
    d = S.data
    if d.size and (np.any(np.iscomplex(d)) or np.any(d.real < 0) or np.any(d.real > 1 + 1e-12) or not np.all(np.isfinite(d))):
        ctx.fail(name + '/entries-outside-unit-interval', 'entries outside [0,1]: %s' % d[:8], case)
    for i in range(S.shape[0]):
        row = S.data[S.indptr[i]:S.indptr[i + 1]]
        if row.size and np.any(row != 0) and abs(np.max(np.abs(row)) - 1) > 1e-12:
            ctx.fail(name + '/row-max-not-one', 'row %d has maximum %r' % (i, np.max(np.abs(row))), case)
    for i in diag_nonzero:
        if (i, i) not in nz_pattern(S):
            ctx.fail(name + '/diagonal-dropped', 'diagonal (%d,%d) not kept' % (i, i), case)


def rule_pattern(kind, A, theta):
    """independent dense statement of the classical / symmetric rule on nonzero entries"""
    A = sp.csr_array(A)
    n = A.shape[0]
    D = A.toarray()
    st = stored_pattern(A)
    keep = set()
    for i in range(n):
        off = [j for j in range(n) if j != i and (i, j) in st]
        for j in off + ([i] if (i, i) in st else []):
            a = D[i, j]
            if a == 0:
                continue            # explicit zeros are eliminated (classical) / carry value 0
            if j == i:
                keep.add((i, j))
            elif kind in (0, 3):
                m = max([abs(D[i, k]) for k in off] + [TINY])
                if abs(a) >= theta * m:
                    keep.add((i, j))
            elif kind in (1, 4):
                m = max([-D[i, k] for k in off] + [0.0])
                if -a >= theta * m:
                    keep.add((i, j))
            else:
                if abs(a) ** 2 >= theta * theta * abs(D[i, i]) * abs(D[j, j]):
                    keep.add((i, j))
    return keep


def oracle_rules(ctx, A, name, fn, kind, thetas, case):
    pats = []
    nzA = nz_pattern(A)
    diag_nz = [i for i in range(A.shape[0]) if (i, i) in nzA]
    for th in thetas:
        c = dict(case, theta=th, measure=name)
        S = fn(A, th)
        contract(ctx, name, stored_pattern(A), diag_nz, S, c)
        got = nz_pattern(S)
        want = rule_pattern(kind, A, th)
        if got != want:
            ctx.fail(name + '/rule', 'kept pattern differs from the rule: extra %s missing %s'
                     % (sorted(got - want)[:4], sorted(want - got)[:4]), c)
        pats.append(got)
        if th == 0 and got != nzA:
            pos = any(A.toarray()[i, j] > 0 for (i, j) in nzA - got if i != j)
            sig = name + '/theta0-drops' + ('-positive-offdiag' if (kind in (1, 4) and pos) else '')
            ctx.fail(sig, 'theta=0 does not keep the whole pattern: missing %s' % sorted(nzA - got)[:4], c)
    for (t1, p1), (t2, p2) in zip(list(zip(thetas, pats))[:-1], list(zip(thetas, pats))[1:]):
        if t1 <= t2 and not p2 <= p1:
            ctx.fail(name + '/not-monotone', 'pattern(theta=%r) not contained in pattern(theta=%r)' % (t2, t1),
                     dict(case, thetas=[t1, t2], measure=name))


# ------------------------------------------------------------------------ run
def matrices(ctx, count, values, tag):
    rng = ctx.sub('mats-' + tag)
    out = []
    for k in range(count):
        n = rng.choice([1, 2, 3, 3, 4, 5, 6, 8])
        dens = rng.choice([0.2, 0.5, 0.8, 1.0])
        diag = rng.choice(['all', 'all', 'mixed', 'none', 'zero'])
        rows = gen.random_pattern_rows(rng, n, dens, values, diag=diag, sym=rng.random() < 0.4,
                                       zero_prob=0.05, neg_diag_prob=0.2 if k % 3 == 0 else 0.0)
        out.append(gen.csr_from_rows(n, rows))
    return out


CORPUS = [
    # F10: norm='min', theta=0, positive off-diagonal
    dict(rows=[[(0, 2.0), (1, 1.0)], [(0, -1.0), (1, 2.0)]]),
    # exact tie at theta=1/2, unsorted row, missing diagonal, empty row
    dict(rows=[[(2, -2.0), (1, -4.0), (0, 8.0)], [(0, -1.0)], [], [(3, 0.0), (0, 4.0)]]),
]


def run(ctx):
    from pyamg import strength
    thetas_q = [0.0, 0.25, 0.5, 0.75, 1.0]
    nq = 150 if not ctx.thorough else 600
    nf = 150 if not ctx.thorough else 600
    if ctx.search:
        nq, nf = 400, 400
    qmats = [gen.csr_from_rows(len(c['rows']), c['rows']) for c in CORPUS]
    qmats += matrices(ctx, nq, [-8, -4, -2, -1, -0.5, 0.5, 1, 2, 4, 8], 'q')
    rngf = ctx.sub('floatvals')
    fvals = [rngf.uniform(-3, 3) for _ in range(40)] + [1e-3, -1e3, 0.1, -0.1, 0.3]
    fmats = matrices(ctx, nf, fvals, 'f')

    casesF, casesQ, metaF, metaQ = [], [], [], []
    for which, mats in (('q', qmats), ('f', fmats)):
        for A in mats:
            nontriv = any(int(A.indices[k]) != i for i in range(A.shape[0])
                          for k in range(A.indptr[i], A.indptr[i + 1]))
            ths = thetas_q if which == 'q' else [ctx.rng.choice([0.0, 0.1, 0.25, 0.35, 0.5, 0.9, 1.0])]
            rowsA = gen.rows_of(A)
            for th in ths:
                for kind in range(6):
                    if kind in (3, 4) and th > 1:
                        continue
                    case = dict(kind=kind, theta=th, rows=rowsA)
                    ctx.mark(case)
                    try:
                        out = impl_kernel(kind, A, th) if kind < 3 else impl_pipeline(kind, A, th)
                    except Exception as e:       # noqa
                        ctx.fail('strength/raises', 'kind %d raised %r' % (kind, e), case)
                        continue
                    ctx.case((kind, th, A.indptr.tobytes(), A.indices.tobytes(), A.data.tobytes()), nontriv,
                             sample=case if kind == 3 else None)
                    ctx.count('kind%d' % kind)
                    ctx.count('n=%d' % A.shape[0])
                    if which == 'q':
                        casesQ.append(term(kind, A, th, out, cq.q, cq.ql))
                        metaQ.append((case, out))
                    casesF.append(term(kind, A, th, out, cq.fl, cq.fll))
                    metaF.append((case, out))
            # the property oracle on the public functions
            base = dict(rows=rowsA)
            ths_o = thetas_q if which == 'q' else [0.0, 0.1, 0.3, 0.7, 1.0]
            oracle_rules(ctx, A, 'classical/abs', lambda M, t: strength.classical_strength_of_connection(M, t, norm='abs'), 3, ths_o, base)
            oracle_rules(ctx, A, 'classical/min', lambda M, t: strength.classical_strength_of_connection(M, t, norm='min'), 4, ths_o, base)
            oracle_rules(ctx, A, 'symmetric', lambda M, t: strength.symmetric_strength_of_connection(M, t), 5, ths_o + [1.5], base)

    ctx.corr_relations = ['amg_core.classical_strength_of_connection_abs/_min, symmetric_strength_of_connection == '
                          'Strength.k_* (PrimFloat bit-exact, Q exact)',
                          'pyamg.strength.classical_strength_of_connection(norm=abs|min), symmetric_... == '
                          'Strength.classical_abs/classical_min/symmetric (PrimFloat bit-exact, Q exact)']
    for nm, cases, meta, typ, chk in (('c14F', casesF, metaF, 'caseT float', 'chkF'),
                                      ('c14Q', casesQ, metaQ, 'caseT Q', 'chkQ')):
        bad, errs = cq.run_cases(nm, HEADER, typ, chk, cases)
        for e in errs:
            ctx.disagree('C14 model evaluation (%s)' % nm, None, e, None)
        for i in bad[:20]:
            case, out = meta[i]
            mo = cq.eval_term(nm + '_bad', HEADER, 'let c := %s in match c with (k,n,t,(p,j,x),_) => model %s %s k n t p j x end'
                              % (cases[i], 'opsF' if nm == 'c14F' else 'opsQ', 'tinyF' if nm == 'c14F' else 'tinyQ'))
            ctx.disagree('strength kind=%d (%s instance)' % (case['kind'], nm[-1]), case, mo, out)
            ctx.count('disagreement')

    contract_others(ctx)


def contract_others(ctx):
    """common contract for the other measures and for BSR / complex inputs (oracle only)"""
    from pyamg import strength
    from pyamg.gallery import poisson, linear_elasticity
    from pyamg.gallery.diffusion import diffusion_stencil_2d
    from pyamg.gallery import stencil_grid
    rng = ctx.sub('others')
    mats = [('poisson5x4', sp.csr_array(poisson((5, 4), format='csr'))),
            ('aniso', sp.csr_array(stencil_grid(diffusion_stencil_2d(epsilon=0.01, theta=0.6), (5, 5), format='csr')))]
    for k in range(2 if not ctx.thorough else 10):
        n = rng.choice([6, 9, 12])
        mats.append(('lap%d' % k, sp.csr_array(gen.poisson_like(rng, n))))
    for name, A in mats:
        n = A.shape[0]
        pat = stored_pattern(A)
        dn = [i for i in range(n) if A[i, i] != 0]
        case = dict(matrix=name, rows=gen.rows_of(A) if n <= 12 else None)
        np.random.seed(ctx.seed + 7)
        V = np.random.rand(n, 2)
        fns = {
            'evolution': lambda: strength.evolution_strength_of_connection(A, np.ones((n, 1)), epsilon=4.0, k=2),
            'evolution/D_A': lambda: strength.evolution_strength_of_connection(A, np.ones((n, 1)), epsilon=2.0, k=2, proj_type='D_A'),
            'energy': lambda: strength.energy_based_strength_of_connection(A, theta=0.1, k=2),
            'distance': lambda: strength.distance_strength_of_connection(A, V, theta=2.0),
            'distance/abs': lambda: strength.distance_strength_of_connection(A, V, theta=0.5, relative_drop=False),
            'affinity': lambda: strength.affinity_distance(A, R=3, k=5),
            'algebraic_distance': lambda: strength.algebraic_distance(A, R=3, k=5),
            'algebraic_distance/p=1': lambda: strength.algebraic_distance(A, R=3, k=5, p=1),
            'algebraic_distance/p=3': lambda: strength.algebraic_distance(A, R=3, k=5, p=3),
            'algebraic_distance/p=1.5': lambda: strength.algebraic_distance(A, R=3, k=5, p=1.5),
            'algebraic_distance/p=inf': lambda: strength.algebraic_distance(A, R=3, k=5, p=np.inf),
            'affinity/q=3': lambda: strength.affinity_distance(A, R=3, k=5),
            # the same measures on -A (negative definite) and on a matrix with rows of alternating sign: still a matrix of
            # finite numbers in [0, 1] on the pattern of A
            'energy/negative-definite': lambda: strength.energy_based_strength_of_connection(sp.csr_array(-A), theta=0.1, k=2),
            'energy/alternating-signs': lambda: strength.energy_based_strength_of_connection(
                sp.csr_array(sp.diags_array((-1.0) ** np.arange(n)) @ A), theta=0.1, k=2),
            'evolution/negative-definite': lambda: strength.evolution_strength_of_connection(sp.csr_array(-A), np.ones((n, 1)), epsilon=4.0, k=2),
        }
        for mname, f in fns.items():
            c = dict(case, measure=mname)
            ctx.mark(c)
            try:
                np.random.seed(ctx.seed + 11)
                S = f()
            except Exception as e:   # noqa
                ctx.fail(mname + '/raises', repr(e), c)
                continue
            ctx.case((mname, name, A.data.tobytes()), True)
            ctx.count('contract:' + mname)
            contract(ctx, mname, pat, dn, S, c)
    # BSR inputs: nodal pattern
    for bs in (2, 3):
        n = 6
        D = gen.poisson_like(rng, n)
        Ab = sp.bsr_array(D, blocksize=(bs, bs))
        nodal = {(i // bs, j // bs) for (i, j) in zip(*np.nonzero(D))}
        for mname, f in (('classical/abs/bsr', lambda: strength.classical_strength_of_connection(Ab, 0.25)),
                         ('classical/fro/bsr', lambda: strength.classical_strength_of_connection(Ab, 0.25, norm='fro')),
                         ('symmetric/bsr', lambda: strength.symmetric_strength_of_connection(Ab, 0.25)),
                         ('symmetric/bsr/theta0', lambda: strength.symmetric_strength_of_connection(Ab, 0.0)),
                         ('evolution/bsr', lambda: strength.evolution_strength_of_connection(Ab, np.ones((n, 1)))),
                         ('energy/bsr', lambda: strength.energy_based_strength_of_connection(Ab, theta=0.1, k=2))):
            c = dict(matrix=D.tolist(), blocksize=bs, measure=mname)
            ctx.mark(c)
            try:
                S = f()
            except Exception as e:   # noqa
                ctx.fail(mname + '/raises', repr(e), c)
                continue
            ctx.case((mname, bs, D.tobytes()), True)
            ctx.count('contract:' + mname)
            contract(ctx, mname, nodal, sorted({i for (i, j) in nodal if i == j}), S, c)
    # scale invariance: the rules compare entries of one matrix with each other, so multiplying the matrix by a
    # power of two (exact in floating point) must not change the result at all -- however small the entries get
    for name, A in mats[:3]:
        for fac in (2.0 ** -60, 2.0 ** 40):
            for mname, f in (('classical/abs', lambda M: strength.classical_strength_of_connection(M, 0.25, norm='abs')),
                             ('classical/min', lambda M: strength.classical_strength_of_connection(M, 0.25, norm='min')),
                             ('symmetric', lambda M: strength.symmetric_strength_of_connection(M, 0.25))):
                c = dict(matrix=name, measure=mname, scaled_by=fac, rows=gen.rows_of(A) if A.shape[0] <= 12 else None)
                ctx.mark(c)
                try:
                    S0 = sp.csr_array(f(A)).toarray()
                    S1 = sp.csr_array(f(sp.csr_array(A * fac))).toarray()
                except Exception as e:   # noqa
                    ctx.fail(mname + '/scaled/raises', repr(e), c)
                    continue
                ctx.case(('scaled', mname, name, fac), True)
                ctx.count('contract:scale-invariance')
                if not np.array_equal(S0, S1):
                    ctx.fail(mname + '/not-scale-invariant', 'strength of %g * A differs from strength of A (max diff %.3g)'
                             % (fac, np.abs(S0 - S1).max()), c)
    # the classical rules compare magnitudes, never their squares or products: they hold as they stand for matrices whose
    # entries are near the ends of the floating-point range (2^-600 and 2^600: squares would underflow / overflow)
    for name, A in mats[:3]:
        for fac in (2.0 ** -600, 2.0 ** 600):
            for mname, f in (('classical/abs', lambda M: strength.classical_strength_of_connection(M, 0.25, norm='abs')),
                             ('classical/min', lambda M: strength.classical_strength_of_connection(M, 0.25, norm='min'))):
                c = dict(matrix=name, measure=mname, scaled_by='2^%d' % (600 if fac > 1 else -600), rows=gen.rows_of(A) if A.shape[0] <= 12 else None)
                ctx.mark(c)
                try:
                    with np.errstate(all='ignore'):
                        S0 = sp.csr_array(f(A)).toarray()
                        S1 = sp.csr_array(f(sp.csr_array(A * fac))).toarray()
                except Exception as e:   # noqa
                    ctx.fail(mname + '/scaled/raises', repr(e), c)
                    continue
                ctx.case(('scaled-extreme', mname, name, fac), True)
                ctx.count('contract:scale-invariance-extreme')
                if not np.array_equal(S0 != 0, S1 != 0):
                    ctx.fail(mname + '/not-scale-invariant', 'strength PATTERN of 2^%d * A differs from that of A' % (600 if fac > 1 else -600), c)
    # symmetric measure on complex matrices whose DIAGONAL is complex (i A, A + 3i I, a random complex matrix): the rule uses
    # the magnitudes |a_ii|, |a_jj|, |a_ij|
    for name, A in mats[:3]:
        Ad_ = A.toarray()
        for tag, Cd in (('i*A', 1j * Ad_), ('A+3i*I', Ad_ + 3j * np.eye(Ad_.shape[0])), ('(1+2i)*A', (1 + 2j) * Ad_)):
            for dt in (np.complex128, np.complex64):
                Cs = sp.csr_array(Cd.astype(dt))
                for th in (0.25, 0.5):
                    c = dict(matrix=name, transform=tag, dtype=np.dtype(dt).name, measure='symmetric', theta=th)
                    ctx.mark(c)
                    try:
                        Sg = sp.csr_array(strength.symmetric_strength_of_connection(Cs, th)).toarray() != 0
                    except Exception as e:   # noqa
                        ctx.fail('symmetric/complex-diagonal/raises', repr(e), c)
                        continue
                    ctx.case(('complex-diagonal', name, tag, np.dtype(dt).name, th), True)
                    ctx.count('contract:symmetric/complex-diagonal')
                    Cx = Cs.toarray().astype(np.complex128)
                    dmag = np.abs(np.diag(Cx))
                    lhs = np.abs(Cx) ** 2
                    rhs = th ** 2 * np.outer(dmag, dmag)
                    want = (lhs >= rhs) & (Cx != 0)
                    np.fill_diagonal(want, True)
                    clear = (np.abs(lhs - rhs) > (1e-9 if dt == np.complex128 else 1e-4) * np.maximum(lhs, rhs)) | np.eye(len(dmag), dtype=bool)
                    if np.any((Sg != want) & clear & (Cx != 0)):
                        i_, j_ = np.argwhere((Sg != want) & clear & (Cx != 0))[0]
                        ctx.fail('symmetric/complex-diagonal/not-the-rule', 'entry (%d,%d): kept=%s but |a_ij|^2=%.6g, theta^2|a_ii||a_jj|=%.6g'
                                 % (i_, j_, bool(Sg[i_, j_]), lhs[i_, j_], rhs[i_, j_]), c)
    # BSR, block-wise: the documented reduction (largest magnitude / smallest signed entry of each block) followed by
    # the scalar rule on the nodal matrix -- the scalar rule itself is what the theorems and the bit-exact
    # correspondence above are about
    for bs in (2, 3):
        for rep in range(3 if not ctx.thorough else 12):
            nb = rng.choice([2, 3, 4])
            n = nb * bs
            D = gen.poisson_like(rng, n)
            if rep % 3 == 1:
                D = D * np.array([[rng.choice([1.0, 1.0, -0.5]) for _ in range(n)] for _ in range(n)])   # mixed signs
            Ab = sp.bsr_array(D, blocksize=(bs, bs))
            blocks = {}
            for bi in range(len(Ab.indptr) - 1):
                for k in range(Ab.indptr[bi], Ab.indptr[bi + 1]):
                    blocks[(bi, int(Ab.indices[k]))] = Ab.data[k]
            for nrm in ('abs', 'min'):
                Cn = np.zeros((nb, nb))
                for (bi, bj), blk in blocks.items():
                    Cn[bi, bj] = np.abs(blk).max() if nrm == 'abs' else blk.min()
                rows = [[(j, Cn[i, j]) for j in range(nb) if (i, j) in blocks] for i in range(nb)]
                Cn_csr = gen.csr_from_rows(nb, rows)
                for th in (0.0, 0.25, 0.5):
                    c = dict(matrix=D.tolist(), blocksize=bs, measure='classical/%s/bsr-blockwise' % nrm, theta=th)
                    ctx.mark(c)
                    try:
                        Sb = sp.csr_array(strength.classical_strength_of_connection(Ab, th, block=True, norm=nrm)).toarray()
                        Sn = sp.csr_array(strength.classical_strength_of_connection(Cn_csr, th, norm=nrm)).toarray()
                    except Exception as e:   # noqa
                        ctx.fail('classical/%s/bsr/raises' % nrm, repr(e), c)
                        continue
                    ctx.case(('bsr-blockwise', nrm, bs, th, D.tobytes()), True)
                    ctx.count('contract:classical/%s/bsr-blockwise' % nrm)
                    if Sb.shape != Sn.shape or not np.array_equal(Sb, Sn):
                        ctx.fail('classical/%s/bsr/not-the-nodal-rule' % nrm,
                                 'block-wise strength differs from the scalar rule applied to the reduced nodal matrix', c)
    # BSR input with block=False: the point-wise rule on the scalar matrix, then amalgamation -- block (I, J) is strong iff some
    # entry of it is strong in the point-wise strength matrix of the same data stored as CSR
    for bs in (2, 3):
        for rep in range(4 if not ctx.thorough else 12):
            nb = rng.choice([2, 3, 4])
            n = nb * bs
            D = gen.poisson_like(rng, n)
            if rep % 2 == 1:
                D = D * np.array([[rng.choice([1.0, 1.0, -0.5]) if i != j else 1.0 for j in range(n)] for i in range(n)])   # positive couplings too
            Ab = sp.bsr_array(D, blocksize=(bs, bs))
            for nrm in ('abs', 'min'):
                for th in (0.0, 0.25, 0.6):
                    c = dict(matrix=D.tolist(), blocksize=bs, measure='classical/%s/bsr-pointwise' % nrm, theta=th)
                    ctx.mark(c)
                    try:
                        Sb = sp.csr_array(strength.classical_strength_of_connection(Ab, th, block=False, norm=nrm)).toarray()
                        Sp_ = sp.csr_array(strength.classical_strength_of_connection(sp.csr_array(D), th, norm=nrm))
                        Sp_.eliminate_zeros()
                        Sp_ = Sp_.toarray()
                    except Exception as e:   # noqa
                        ctx.fail('classical/%s/bsr-pointwise/raises' % nrm, repr(e), c)
                        continue
                    ctx.case(('bsr-pointwise', nrm, bs, th, D.tobytes()), True)
                    ctx.count('contract:classical/%s/bsr-pointwise' % nrm)
                    want = np.abs(Sp_).reshape(nb, bs, nb, bs).sum(axis=(1, 3)) != 0
                    if Sb.shape != (nb, nb) or np.any((Sb != 0) != want):
                        ctx.fail('classical/%s/bsr/pointwise-amalgamation' % nrm,
                                 'block=False: the nodal pattern differs from "some entry of the block is strong in the point-wise rule" (theta=%g)' % th, c)
    # symmetric strength on BSR input (real and complex): the nodal rule with Frobenius norms of the blocks,
    #   keep (I,J) iff |A_IJ|_F^2 >= theta^2 |A_II|_F |A_JJ|_F   (diagonal blocks always kept)
    for bs in (2, 3):
        for rep in range(3 if not ctx.thorough else 10):
            nb = rng.choice([3, 4, 5])
            n = nb * bs
            D = gen.poisson_like(rng, n).astype(complex if rep % 2 else float)
            if rep % 2:
                D = D * np.exp(1j * np.array([[rng.uniform(0, 6) if i != j else 0.0 for j in range(n)] for i in range(n)]))
                D = (D + D.conj().T) / 2
            if rep == 2:
                # directed: real diagonal blocks, off-diagonal blocks whose entries have phases 0 and pi/2 (their squares cancel,
                # their moduli do not)
                Tn = 2.0 * np.eye(nb) - np.eye(nb, k=1) - np.eye(nb, k=-1)
                Bo = np.where((np.add.outer(np.arange(bs), np.arange(bs)) % 2) == 1, 1j, 1.0)
                D = np.kron(np.diag(np.diag(Tn)), np.eye(bs)).astype(complex) + np.kron(Tn - np.diag(np.diag(Tn)), Bo)
            Ab = sp.bsr_array(D, blocksize=(bs, bs))
            fro = np.sqrt((np.abs(D) ** 2).reshape(nb, bs, nb, bs).sum(axis=(1, 3)))
            for th in (0.1, 0.25, 0.5):
                c = dict(matrix=[[complex(v) for v in r] for r in D], blocksize=bs, measure='symmetric/bsr-frobenius', theta=th)
                ctx.mark(c)
                try:
                    Sb = sp.csr_array(strength.symmetric_strength_of_connection(Ab, th)).toarray()
                except Exception as e:   # noqa
                    ctx.fail('symmetric/bsr/raises', repr(e), c)
                    continue
                ctx.case(('bsr-symmetric', bs, th, D.tobytes()), True)
                ctx.count('contract:symmetric/bsr-frobenius')
                want = np.zeros((nb, nb), dtype=bool)
                margin = np.zeros((nb, nb))
                for I_ in range(nb):
                    for J_ in range(nb):
                        if fro[I_, J_] == 0:
                            continue
                        lhs, rhs = fro[I_, J_] ** 2, th ** 2 * fro[I_, I_] * fro[J_, J_]
                        want[I_, J_] = I_ == J_ or lhs >= rhs
                        margin[I_, J_] = abs(lhs - rhs) / max(lhs, rhs, 1e-300)
                got = Sb != 0
                clear = (margin > 1e-9) | np.eye(nb, dtype=bool)          # (entries exactly at the threshold may go either way in floating point)
                if Sb.shape != (nb, nb) or np.any((got != want) & clear & (fro != 0)):
                    ctx.fail('symmetric/bsr/not-the-nodal-rule', 'kept block pattern differs from |A_IJ|_F^2 >= theta^2 |A_II|_F |A_JJ|_F', c)
    # complex Hermitian rotation: same patterns as the real matrix
    D = gen.poisson_like(rng, 6)
    u = np.exp(1j * np.array([rng.uniform(0, 6) for _ in range(6)]))
    C = sp.csr_array(np.diag(u) @ D @ np.diag(u.conj()))
    A = sp.csr_array(D)
    for mname, f in (('classical/abs/complex', lambda M: strength.classical_strength_of_connection(M, 0.25)),
                     ('symmetric/complex', lambda M: strength.symmetric_strength_of_connection(M, 0.25))):
        c = dict(matrix=D.tolist(), measure=mname)
        S1 = f(C)
        ctx.case((mname, D.tobytes()), True)
        contract(ctx, mname, stored_pattern(C), list(range(6)), S1, c)
        # (no pattern comparison with the real matrix: |u_i a conj(u_j)| equals |a| only to
        #  rounding, so exact ties at the threshold may legitimately flip)


def search(ctx):
    run(ctx)


def replay(ctx, data):
    """re-run implementation + oracle on the recorded case"""
    case = data.get('case') or {}
    rows = case.get('rows')
    if not rows:
        ctx.notes.append('replay file has no matrix')
        return
    from pyamg import strength
    A = gen.csr_from_rows(len(rows), [[(int(j), float(v)) for j, v in r] for r in rows])
    ths = [case['theta']] if 'theta' in case else [0.0, 0.25, 0.5, 0.75, 1.0]
    oracle_rules(ctx, A, 'classical/abs', lambda M, t: strength.classical_strength_of_connection(M, t, norm='abs'), 3, ths, dict(rows=rows))
    oracle_rules(ctx, A, 'classical/min', lambda M, t: strength.classical_strength_of_connection(M, t, norm='min'), 4, ths, dict(rows=rows))
    oracle_rules(ctx, A, 'symmetric', lambda M, t: strength.symmetric_strength_of_connection(M, t), 5, ths, dict(rows=rows))
