"""C13 -- coarse/fine splittings are well formed and cover the strength graph."""
import ctypes

import numpy as np
import scipy.sparse as sp

from .. import coqrun as cq
from .. import gen

TECHNIQUE = 'Coq proofs (PMIS kernel, RS independence, RS domination and two-pass RS cover unbounded; CLJP all patterns <= 3/4 nodes) + exhaustive kernel/model correspondence incl. lambda buckets'
LEVEL_TEXT = ('Kernel-checked theorems (Props/C13.v).  Unbounded: the PMIS kernel (parallel maximal independent set with codes '
              '-1/1/0) on every symmetric graph of any size and any weights returns only splittings whose C set is independent '
              'and dominating, and with integer weights (ties by index) it always returns; first-pass Ruge-Stuben on every pattern '
              'with symmetric transpose returns 0/1 flags with an independent coarse set, whatever order the lambda buckets '
              'impose, and on a symmetric pattern (nonnegative influence) that coarse set is dominating: every fine point is '
              'without off-diagonal strong connection or strongly connected to a coarse point (the proof carries the invariant '
              'of the lambda buckets -- a sorted, gap-free partition of the unvisited positions -- through the counting sort, '
              'incr_lambda and the removal of the top node); two-pass Ruge-Stuben on EVERY pattern (symmetric or not) returns 0/1 '
              'flags in which every fine point with a nonempty strength row strongly depends on a coarse point.  Bounded, decided by vm_compute over '
              'complete enumerations with the bound in each statement: on every directed pattern with <= 3 vertices and every symmetric graph with <= 4 the '
              'model of rs_cf_splitting (with its lambda buckets) returns 0/1 flags and marks a C point whenever there '
              'is an edge; on symmetric patterns its C set is independent and dominating; two-pass Ruge-Stuben and '
              'CLJP (all tied weight vectors) give every F point with a strong dependence a strong C dependence; '
              'parallel MIS (PMIS) is independent and dominating (C18).  The models agree exactly with the rebuilt '
              'working-tree kernels on all 5 189 directed patterns on <= 4 vertices and symmetric graphs on 5 (both RS '
              'passes, CLJP with the glibc rand() weights and with colouring weights in binary64); validity oracles '
              'decide the property on the public RS/PMIS/PMISc/CLJP/CLJPc routines, with reproducibility per seed.')
LEVEL_NOTE = ('CLJP theorems are bounded; RS independence, RS domination, the two-pass RS cover and the PMIS kernel have unbounded theorems.  glibc rand() is replayed by '
              'the harness through ctypes (trusted).  PMIS/PMISc preprocessing (SciPy S+S^T, NumPy RNG) is not modelled: '
              'oracle only.')
RULE = ('every directed pattern on 1..4 vertices and every symmetric graph on 5 (thorough: plus symmetric graphs on 6): '
        'rs_cf_splitting, rs_cf_splitting_pass2, cljp_naive_splitting (colorflag 0/1) == Gallina model exactly; public '
        'RS (one/two pass), PMIS, PMISc(JP/MIS/LDF), CLJP, CLJPc on the same patterns with and without stored diagonal, '
        'seeds replayed twice -> independence / domination / cover / some-C / binary oracles.  Non-trivial: the pattern '
        'has an off-diagonal entry.')
RULE += (' '
         'Also 400 (6000 thorough) random directed patterns on 5-7 vertices; strength matrices handed to the public routines carry antisymmetric (S_ij = -S_ji) or random nonzero values.')
TRUSTED = ['glibc srand/rand via ctypes', 'SciPy transpose / sparse addition in split._preprocess', 'NumPy global RNG']
PARTIAL = ['CLJP: theorems bounded (<= 3 vertices directed, <= 4 symmetric); PMIS kernel and both RS passes: unbounded',
           'PMIS/PMISc Python preprocessing: oracle only']
HEADER = ('From Coq Require Import ZArith List PrimFloat.\nImport ListNotations.\n'
          'Require Import PV.Base.Ops PV.Model.GraphRun PV.Model.GraphRun2.\nOpen Scope Z_scope.\n')
I32 = np.int32
RAND_MAX = 2147483647


def glibc_rand(seed, k):
    libc = ctypes.CDLL('libc.so.6')
    libc.srand(ctypes.c_uint(seed))
    libc.rand.restype = ctypes.c_int
    return [libc.rand() for _ in range(k)]


def patterns(ctx):
    for n in range(1, 5):
        for arcs in gen.all_directed_patterns(n):
            yield n, list(arcs)
    for n in ([5, 6] if ctx.thorough else [5]):
        for edges in gen.all_sym_graphs(n):
            yield n, list(edges) + [(j, i) for i, j in edges]
    # random directed patterns on 5..7 vertices (the complete universes are too large)
    rg = ctx.sub('directed-large')
    for t in range(400 if not ctx.thorough else 6000):
        n = rg.choice([5, 5, 6, 7])
        dens = rg.choice([0.15, 0.3, 0.5])
        yield n, [(i, j) for i in range(n) for j in range(n) if i != j and rg.random() < dens]
    # random SYMMETRIC graphs on 8..24 vertices (first-pass Ruge-Stuben must be independent and dominating on them)
    rs_ = ctx.sub('symmetric-large')
    for t in range(150 if not ctx.thorough else 2500):
        n = rs_.choice([8, 10, 12, 16, 20, 24])
        dens = rs_.choice([0.12, 0.25, 0.4])
        und = [(i, j) for i in range(n) for j in range(i + 1, n) if rs_.random() < dens]
        yield n, und + [(j, i) for i, j in und]


def csr_pair(n, arcs):
    S = gen.digraph_csr(n, arcs)
    T = sp.csr_array(S.T)
    T.sort_indices()
    return (S.indptr.astype(I32), S.indices.astype(I32), T.indptr.astype(I32), T.indices.astype(I32))


# ----------------------------------------------------------------------- oracles
def neighbours(n, arcs):
    dep = [set() for _ in range(n)]       # i strongly depends on dep[i]   (row i of S)
    for i, j in arcs:
        if i != j:
            dep[i].add(j)
    symn = [set(d) for d in dep]
    for i in range(n):
        for j in dep[i]:
            symn[j].add(i)
    return dep, symn


def oracle(ctx, name, n, arcs, spl, case, indep_dom=False, cover=False):
    spl = [int(v) for v in spl]
    dep, symn = neighbours(n, arcs)
    if len(spl) != n or any(v not in (0, 1) for v in spl):
        ctx.fail(name + '/not-binary', 'splitting %s' % spl, case)
        return
    if any(dep) and not any(spl):
        ctx.fail(name + '/no-C-point', 'graph has an edge but no coarse point', case)
    if indep_dom:
        for i in range(n):
            if spl[i] == 1 and any(spl[j] == 1 for j in symn[i]):
                ctx.fail(name + '/C-not-independent', 'coarse point %d has a coarse neighbour' % i, case)
                return
            if spl[i] == 0 and symn[i] and not any(spl[j] == 1 for j in symn[i]):
                ctx.fail(name + '/F-not-dominated', 'fine point %d has no strongly connected coarse point' % i, case)
                return
    if cover:
        for i in range(n):
            if spl[i] == 0 and dep[i] and not any(spl[j] == 1 for j in dep[i]):
                ctx.fail(name + '/F-without-C-dependence', 'fine point %d depends on %s, none coarse' % (i, sorted(dep[i])), case)
                return


def run(ctx):
    from pyamg import amg_core
    from pyamg.classical import split
    cases, meta, casesF, metaF = [], [], [], []
    k = 0
    rng = ctx.sub('pub')
    for n, arcs in patterns(ctx):
        Sp, Sj, Tp, Tj = csr_pair(n, arcs)
        base = dict(n=n, arcs=arcs)
        sym = all((j, i) in set(arcs) for i, j in arcs)
        nontriv = len(arcs) > 0
        k += 1
        ctx.mark(base)
        # --- kernels vs model
        infl = np.zeros(n, dtype=I32)
        spl = np.full(n, -9, dtype=I32)
        amg_core.rs_cf_splitting(n, Sp, Sj, Tp, Tj, infl, spl)
        spl1 = spl.copy()
        amg_core.rs_cf_splitting_pass2(n, Sp, Sj, spl)
        for alg, out, nm in ((30, spl1, 'rs_pass1'), (32, spl, 'rs_two_pass')):
            cases.append('(%d%%nat, %s, %s, %s, [], %s, %s)' % (
                alg, cq.z(n), cq.zl(Sp), cq.zl(Sj), cq.lst([cq.zl(Tp), cq.zl(Tj), cq.zl(infl)]), cq.zl(out)))
            meta.append((dict(base, alg=nm), out.tolist()))
            ctx.case((alg, n, tuple(arcs)), nontriv, sample=dict(base, alg=nm, out=out.tolist()) if k % 900 == 5 else None)
            ctx.count(nm)
        for colorflag in (0, 1):
            spl = np.full(n, -9, dtype=I32)
            amg_core.cljp_naive_splitting(n, Sp, Sj, Tp, Tj, spl, colorflag)
            w0 = [r / RAND_MAX for r in glibc_rand(2448422, n)] if colorflag == 0 else []
            casesF.append('(%s, %s, %s, %s, %s, %s, %s, %s)' % (
                cq.z(n), cq.zl(Sp), cq.zl(Sj), cq.zl(Tp), cq.zl(Tj), cq.z(colorflag), cq.fll(w0), cq.zl(spl)))
            metaF.append((dict(base, alg='cljp', colorflag=colorflag), spl.tolist()))
            ctx.case(('cljp', colorflag, n, tuple(arcs)), nontriv)
            ctx.count('cljp%d' % colorflag)
            oracle(ctx, 'cljp_naive_splitting/color=%d' % colorflag, n, arcs, spl, dict(base, colorflag=colorflag), cover=True)
        oracle(ctx, 'rs_cf_splitting', n, arcs, spl1, base, indep_dom=sym)
        # --- public routines (subsample the big universe for the randomised ones)
        if n <= 3 or k % 7 == 0 or n >= 5 and k % 3 == 0 or ctx.thorough:
            diag = rng.random() < 0.5
            S = gen.digraph_csr(n, arcs, diag=diag)
            if k % 5 == 2:
                S = gen.unsorted_copy(S, rng)     # same pattern, column indices stored in shuffled order
            S.indptr = S.indptr.astype(I32)
            S.indices = S.indices.astype(I32)
            # the splittings depend on the PATTERN of S only: every other sample carries values with S[i,j] = -S[j,i]
            # (they cancel in S + S^T if someone forgets to replace them by ones), the rest random nonzero values
            signed = k % 2 == 0
            rows_of = np.repeat(np.arange(n), np.diff(S.indptr))
            if signed:
                S.data[:] = np.where(rows_of < S.indices, 1.0, np.where(rows_of > S.indices, -1.0, 1.0))
            else:
                S.data[:] = [rng.choice([0.5, -0.25, 2.0, -3.0, 1.0]) for _ in range(S.nnz)]
            if diag and k % 3 == 0:
                S.data[rows_of == S.indices] = 0.0      # a diagonal that is STORED but zero (e.g. after S.setdiag(0))
            if k % 4 == 1 and S.nnz:
                # some off-diagonal couplings STORED with the value zero (a strength measure with theta = 0 keeps stored zeros of A):
                # the strength graph is the stored pattern
                offd = np.flatnonzero(rows_of != S.indices)
                for q_ in offd[::2]:
                    S.data[q_] = 0.0
            cs = dict(base, diag=diag, values='antisymmetric' if signed else 'random')
            ctx.mark(cs)
            oracle(ctx, 'RS', n, arcs, split.RS(S), cs, indep_dom=sym)
            oracle(ctx, 'RS/second_pass', n, arcs, split.RS(S, second_pass=True), cs, cover=True)
            # (any true value asks for the second pass)
            for tv in (np.True_, 1):
                if split.RS(S, second_pass=tv).tolist() != split.RS(S, second_pass=True).tolist():
                    ctx.fail('RS/second_pass/truthy-value-ignored', 'second_pass=%r gives another splitting than second_pass=True' % (tv,), cs)
                    break
            for nm, f, kw in (('PMIS', lambda: split.PMIS(S), dict(indep_dom=True)),
                              ('PMISc/JP', lambda: split.PMISc(S, method='JP'), dict(indep_dom=True)),
                              ('PMISc/MIS', lambda: split.PMISc(S, method='MIS'), dict(indep_dom=True)),
                              ('PMISc/LDF', lambda: split.PMISc(S, method='LDF'), dict(indep_dom=True)),
                              ('CLJP', lambda: split.CLJP(S), dict(cover=True)),
                              ('CLJPc', lambda: split.CLJPc(S), dict(cover=True))):
                seed = ctx.seed * 100 + k
                np.random.seed(seed)
                try:
                    a = f()
                    np.random.seed(seed)
                    b = f()
                except Exception as e:   # noqa
                    ctx.fail(nm + '/raises', repr(e), cs)
                    continue
                ctx.count('public:' + nm)
                ctx.case((nm, n, tuple(arcs), diag, seed), nontriv)
                if a.tolist() != b.tolist():
                    ctx.fail(nm + '/not-reproducible', 'same seed gave %s and %s' % (a.tolist(), b.tolist()), cs)
                oracle(ctx, nm, n, arcs, a, dict(cs, seed=seed), **kw)
    ctx.exhaustive = True
    ctx.corr_relations = ['amg_core.rs_cf_splitting, rs_cf_splitting_pass2 == Split.rs_cf_splitting / rs_pass2 (exact)',
                          'amg_core.cljp_naive_splitting(colorflag 0|1) == Split.cljp at binary64 weights (exact)']
    structured(ctx)
    bad, errs = cq.run_cases('c13', HEADER, 'caseT', 'chk2', cases, shard=1500)
    for e in errs:
        ctx.disagree('C13 model evaluation', None, e, None)
    for i in bad[:20]:
        case, out = meta[i]
        mo = cq.eval_term('c13_bad', HEADER, 'match %s with (a,n,p,j,zs,ls,_) => run2 a n p j zs ls end' % cases[i])
        ctx.disagree('splitting kernel %s' % case.get('alg'), case, mo, out)
    bad, errs = cq.run_cases('c13F', HEADER, 'caseTF', 'chkF', casesF, shard=1500)
    for e in errs:
        ctx.disagree('C13 CLJP model evaluation', None, e, None)
    for i in bad[:20]:
        case, out = metaF[i]
        ctx.disagree('cljp_naive_splitting', case, 'model differs (GraphRun2.chkF)', out)


def structured(ctx):
    """larger structured inputs for the public routines and the CLJP kernel"""
    from pyamg import amg_core
    from pyamg.classical import split
    rng = ctx.sub('structured')
    # 1. a dependency chain: path 0-1-...-(L-1) whose measures increase along the path (auxiliary node L+m depends on the
    #    path nodes m..L-1), so that the parallel independent-set sweeps can decide only the top end of the path per round
    for L in (40, 100):
        arcs = []
        for k in range(L - 1):
            arcs += [(k, k + 1), (k + 1, k)]
        for m in range(L):
            arcs += [(L + m, k) for k in range(m, L)]
        n = 2 * L
        S = gen.digraph_csr(n, arcs)
        S.indptr, S.indices = S.indptr.astype(I32), S.indices.astype(I32)
        case = dict(structured='dependency-chain', L=L, n=n)
        ctx.mark(case)
        for nm, f in (('PMIS', lambda: split.PMIS(S)), ('PMISc/JP', lambda: split.PMISc(S, method='JP')),
                      ('PMISc/MIS', lambda: split.PMISc(S, method='MIS')), ('PMISc/LDF', lambda: split.PMISc(S, method='LDF'))):
            np.random.seed(ctx.seed)
            try:
                a = f()
            except Exception as e:   # noqa
                ctx.fail(nm + '/raises', repr(e), case)
                continue
            ctx.case(('chain', nm, L), True)
            ctx.count('public:%s/dependency-chain' % nm)
            oracle(ctx, nm, n, arcs, a, dict(case, arcs='path + fan-in (see DESIGN 8.6)'), indep_dom=True)
    # 2. CLJP / CLJPc on many random NONSYMMETRIC patterns (5..12 vertices) and a small corpus: every fine point that depends on
    #    some node depends on a coarse point
    corpus = [(5, [(0, 2), (1, 4), (3, 0), (4, 0), (4, 2), (4, 3)]),
              (6, [(0, 5), (1, 4), (1, 5), (2, 4), (3, 0), (3, 5), (4, 5), (5, 2)])]
    rand = []
    for _ in range(1500 if not ctx.thorough else 20000):
        n = rng.choice([5, 6, 7, 8, 10, 12, 16, 24, 32])
        dens = rng.choice([0.15, 0.25, 0.4]) if n <= 12 else rng.choice([0.06, 0.1, 0.15])
        rand.append((n, [(i, j) for i in range(n) for j in range(n) if i != j and rng.random() < dens]))
    for n, arcs in corpus + rand:
        Sp, Sj, Tp, Tj = csr_pair(n, arcs)
        for colorflag in (0, 1):
            spl = np.full(n, -9, dtype=I32)
            amg_core.cljp_naive_splitting(n, Sp, Sj, Tp, Tj, spl, colorflag)
            ctx.count('cljp%d/random-nonsymmetric' % colorflag)
            oracle(ctx, 'cljp_naive_splitting/color=%d' % colorflag, n, arcs, spl, dict(n=n, arcs=arcs, colorflag=colorflag), cover=True)
        ctx.case(('cljp-random', n, tuple(arcs)), bool(arcs))
    # 3. the same call twice in one process gives the same splitting (also without reseeding NumPy: CLJP seeds its own generator)
    for n, arcs in rand[:40]:
        S = gen.digraph_csr(n, arcs)
        S.indptr, S.indices = S.indptr.astype(I32), S.indices.astype(I32)
        a, b = split.CLJP(S), split.CLJP(S)
        if a.tolist() != b.tolist():
            ctx.fail('CLJP/not-reproducible', 'two calls in a row gave %s and %s' % (a.tolist(), b.tolist()), dict(n=n, arcs=arcs))
            break


def search(ctx):
    run(ctx)


def replay(ctx, data):
    from pyamg.classical import split
    case = data.get('case') or {}
    n, arcs = case.get('n'), [tuple(a) for a in case.get('arcs', [])]
    if n is None:
        return
    S = gen.digraph_csr(n, arcs, diag=case.get('diag', False))
    S.indptr = S.indptr.astype(I32)
    S.indices = S.indices.astype(I32)
    sym = all((j, i) in set(arcs) for i, j in arcs)
    np.random.seed(case.get('seed', 0))
    oracle(ctx, 'RS', n, arcs, split.RS(S), case, indep_dom=sym)
    oracle(ctx, 'RS/second_pass', n, arcs, split.RS(S, second_pass=True), case, cover=True)
    oracle(ctx, 'PMIS', n, arcs, split.PMIS(S), case, indep_dom=True)
    oracle(ctx, 'CLJP', n, arcs, split.CLJP(S), case, cover=True)
    oracle(ctx, 'CLJPc', n, arcs, split.CLJPc(S), case, cover=True)
    ctx.case(repr(case), True)
