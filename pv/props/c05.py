"""C05 -- a solver that reports symmetric smoothing yields a Hermitian preconditioner."""
import ast
import warnings

import numpy as np
import scipy.sparse as sp

from .. import coqrun as cq
from .. import core
from .. import hier

TECHNIQUE = 'Coq/mathcomp proof that adjoint smoother pairs give a symmetric V/W operator + proof and exhaustive correspondence of the flag derivation'
LEVEL_TEXT = ('Kernel-checked theorems (Props/C05.v): for hierarchies of any depth with symmetric level matrices, R = P^T, '
              'a symmetric coarse solve and adjoint smoother pairs, the textbook V- and W-cycle operator is a symmetric '
              'matrix, it is the operator of the C03 cycle function, hence <Mu,v> = <u,Mv>; if moreover the cycle strictly '
              'contracts the energy norm of every nonzero error (A symmetric positive semidefinite and invertible) that matrix is positive '
              'definite; and the three list-length '
              'branches of change_smoothers compute exactly the conjunction over all smoothing levels of the pairwise '
              'test on the smoothers actually installed.  The flag model (fed the SYMMETRIC/KRYLOV method lists read '
              'from the working-tree source) must agree with ml.symmetric_smoothing on an enumeration of all method '
              'pairs x iterations x sweeps and on per-level lists of differing lengths; for every flag-true '
              'configuration class the dense V and W preconditioner of the implementation must be Hermitian and '
              'positive definite (real symmetric and complex Hermitian problems), and accel=cg must warn iff the flag is false.')
LEVEL_NOTE = ('Soundness of the pairwise test itself (flag true => adjoint pair) is not a theorem: it is decided per '
              'configuration class by the dense oracle; on the unchanged tree it FAILS for the classes listed as known '
              'findings (kwargs other than sweep differ; jacobi_ne; gauss_seidel_ne/_nr) -- the library\'s own test-suite '
              'expects those flags, so they are recorded, not repaired.  Positive definiteness is proved from strict energy contraction; '
              'strictness itself (C02 proves non-expansion) is measured by the oracle on built hierarchies.')
RULE = ('all ordered pairs of the 21 registered smoothers + None x iterations {1,2}^2 (random sweeps), all 9 sweep pairs '
        'for equal names, cf/fc pairs with f/c iteration counts, per-level lists of length 1-3 on 3-4 level hierarchies: '
        'flag model == ml.symmetric_smoothing; every distinct flag-true (method pair, sweep pair, kwargs-equal?) class: '
        'dense M (V, W) Hermitian to 1e-10 and positive definite on a real and a complex Hermitian problem.  '
        'Non-trivial: a configuration with two smoothing levels or more; distinct = distinct configuration.')
RULE += (' '
         'Oracle problems: real CSR, complex CSR, real 2x2 BSR.')
THOROUGH_ROUNDS = 3
TRUSTED = ['ast extraction of SYMMETRIC_RELAXATION / KRYLOV_RELAXATION / _setup_call keys from pyamg/relaxation/smoothing.py']
PARTIAL = ['flag soundness (flag true => adjoint smoother pair) is decided by the oracle per class, not proved',
           'complex Hermitian case: oracle only', 'strict energy contraction (hypothesis of the positive-definiteness theorem): measured by the oracle']
REFUTED = ['flag soundness fails on the unchanged tree for: differing kwargs, jacobi_ne, gauss_seidel_ne, gauss_seidel_nr (F4)']
HEADER = ('From Coq Require Import ZArith List Bool.\nImport ListNotations.\n'
          'Require Import PV.Base.Ops PV.Model.SmoothFlag PV.Model.SmoothFlagRun.\nOpen Scope Z_scope.\n')
SW = {'forward': 0, 'backward': 1, 'symmetric': 2}
# methods whose sweep-paired / plain form gives an adjoint pre/post pair (Algebra/Hermitian.v + C09);
# anything else appearing in SYMMETRIC_RELAXATION breaks the obligation below
TRULY_SYMMETRIC = {'jacobi', 'richardson', 'block_jacobi', 'chebyshev', None, 'jacobi_ne'}   # jacobi_ne: known finding


def source_constants():
    src = open(core.REPO + '/pyamg/relaxation/smoothing.py').read()
    tree = ast.parse(src)
    out = {}
    for node in ast.walk(tree):
        if isinstance(node, ast.Assign) and isinstance(node.targets[0], ast.Name) and \
                node.targets[0].id in ('SYMMETRIC_RELAXATION', 'KRYLOV_RELAXATION', 'DEFAULT_SWEEP', 'DEFAULT_NITER'):
            out[node.targets[0].id] = ast.literal_eval(node.value)
        if isinstance(node, ast.FunctionDef) and node.name == '_setup_call':
            for sub in ast.walk(node):
                if isinstance(sub, ast.Dict):
                    out['registry'] = [k.value for k in sub.keys if isinstance(k, ast.Constant)]
    return out


def spec_of(v, ids, consts):
    name, kw = (v[0], v[1]) if isinstance(v, tuple) else (v, {})
    return (ids[name], kw.get('iterations', consts['DEFAULT_NITER']), kw.get('f_iterations', consts['DEFAULT_NITER']),
            kw.get('c_iterations', consts['DEFAULT_NITER']), SW[kw.get('sweep', consts['DEFAULT_SWEEP'])])


def spec_term(s):
    return '(sp %s %s %s %s %s)' % tuple(cq.z(x) for x in s)


def _nn_c05(v):
    return float('inf') if not np.isfinite(v) else float(v)


def dense_M(ml, cycle):
    n = ml.levels[0].A.shape[0]
    dt = ml.levels[0].A.dtype
    Mop = ml.aspreconditioner(cycle=cycle)
    M = np.zeros((n, n), dtype=dt)
    for j in range(n):
        e = np.zeros(n, dtype=dt)
        e[j] = 1
        M[:, j] = Mop @ e
    return M


def kw_equal_except_sweep(a, b):
    ka = {k: v for k, v in (a[1] if isinstance(a, tuple) else {}).items() if k not in ('sweep',)}
    kb = {k: v for k, v in (b[1] if isinstance(b, tuple) else {}).items() if k not in ('sweep',)}
    return ka == kb


def name_of(v):
    return v[0] if isinstance(v, tuple) else v


def run(ctx):
    import pyamg
    from pyamg.relaxation.smoothing import change_smoothers
    consts = source_constants()
    names = sorted(consts['registry']) + [None]
    ids = {nm: i for i, nm in enumerate(names)}
    krylov = [n for n in consts['KRYLOV_RELAXATION']]
    symm = [n for n in consts['SYMMETRIC_RELAXATION']]
    if not set(symm) <= TRULY_SYMMETRIC:
        ctx.disagree('SYMMETRIC_RELAXATION (source) must only list methods with an adjoint pre/post pair',
                     dict(source=symm), sorted(map(str, TRULY_SYMMETRIC)), symm)
    pref = [ids[n] for n in names if n and n.startswith(('cf_', 'fc_'))]
    consts_term = '%s, %s, (%s, %s, %s, %s), %s' % (
        cq.zl([ids[n] for n in symm]), cq.zl([ids[n] for n in krylov]),
        cq.z(ids['cf_jacobi']), cq.z(ids['fc_jacobi']), cq.z(ids['cf_block_jacobi']), cq.z(ids['fc_block_jacobi']), cq.zl(pref))
    rng = ctx.sub('cfg')
    from pyamg.gallery import poisson
    A = sp.csr_array(poisson((14,), format='csr'))
    np.random.seed(0)
    ml3 = pyamg.ruge_stuben_solver(A, max_coarse=2, max_levels=3, keep=True)
    ml4 = pyamg.ruge_stuben_solver(A, max_coarse=1, max_levels=4, keep=True)
    L3, L4 = len(ml3.levels) - 1, len(ml4.levels) - 1

    def opts(name, it, sweep=None, f_it=None, c_it=None, omega=None):
        kw = {}
        if it is not None and name not in (None, 'none'):
            kw['iterations'] = it
        if sweep is not None and name in ('gauss_seidel', 'block_gauss_seidel', 'sor', 'schwarz', 'strength_based_schwarz',
                                          'gauss_seidel_ne', 'gauss_seidel_nr'):
            kw['sweep'] = sweep
        if name in ('cf_jacobi', 'fc_jacobi', 'cf_block_jacobi', 'fc_block_jacobi'):
            if f_it is not None:
                kw['f_iterations'] = f_it
            if c_it is not None:
                kw['c_iterations'] = c_it
        if name == 'sor':
            kw['omega'] = omega if omega is not None else 1.2
        elif omega is not None and name in ('jacobi', 'richardson', 'block_jacobi', 'jacobi_ne'):
            kw['omega'] = omega
        if name in KRY:
            kw.pop('iterations', None)
            kw['maxiter'] = 1
        return (name, kw) if kw else name
    global KRY
    KRY = set(krylov)
    configs = []
    sweeps = ['forward', 'backward', 'symmetric']
    for n1 in names:
        for n2 in names:
            for it1, it2 in ((1, 1), (1, 2), (2, 2)):
                if n1 == n2:
                    continue
                configs.append(([opts(n1, it1, rng.choice(sweeps), rng.choice([1, 2]), rng.choice([1, 2]))],
                                [opts(n2, it2, rng.choice(sweeps), rng.choice([1, 2]), rng.choice([1, 2]))]))
    for n1 in names:
        for s1 in sweeps:
            for s2 in sweeps:
                for it1, it2 in ((1, 1), (2, 1), (2, 2)):
                    configs.append(([opts(n1, it1, s1, 1, 2)], [opts(n1, it2, s2, 1, 2)]))
    for a, b in (('cf_jacobi', 'fc_jacobi'), ('fc_jacobi', 'cf_jacobi'), ('cf_block_jacobi', 'fc_block_jacobi'),
                 ('fc_block_jacobi', 'cf_block_jacobi')):
        for f1 in (1, 2):
            for f2 in (1, 2):
                for c1 in (1, 2):
                    for c2 in (1, 2):
                        configs.append(([opts(a, 1, None, f1, c1)], [opts(b, 1, None, f2, c2)]))
    # corpus: the known-finding classes
    configs += [([('jacobi', {'omega': 0.5})], [('jacobi', {'omega': 1.0})]),
                (['jacobi_ne'], ['jacobi_ne']),
                ([('gauss_seidel_ne', {'sweep': 'forward'})], [('gauss_seidel_ne', {'sweep': 'backward'})]),
                ([('gauss_seidel_nr', {'sweep': 'symmetric'})], [('gauss_seidel_nr', {'sweep': 'symmetric'})])]
    # per-level lists of differing length
    pool = ['gauss_seidel', 'jacobi', None, 'sor', 'richardson', 'chebyshev', 'schwarz', 'block_gauss_seidel', 'gauss_seidel_nr']
    for _ in range(250 if not ctx.thorough else 1500):
        def rl():
            return [opts(rng.choice(pool), rng.choice([1, 1, 2]), rng.choice(sweeps)) for _ in range(rng.choice([1, 2, 3]))]
        configs.append((rl(), rl()))
    # directed per-level lists: the shorter list is extended by its last entry; deeper entries of the longer list
    # agree with it except for ONE attribute (iterations, sweep, method) -- each list-length branch, both directions
    for m in ('jacobi', 'richardson', 'gauss_seidel', 'sor', 'block_gauss_seidel', 'chebyshev'):
        for it_a, it_b, sw_b in ((1, 2, 'symmetric'), (2, 1, 'symmetric'), (1, 1, 'forward'), (1, 1, 'symmetric'), (2, 2, 'symmetric')):
            short = [opts(m, it_a, 'symmetric')]
            for depth in (2, 3):
                long_ = [opts(m, it_a, 'symmetric')] * (depth - 1) + [opts(m, it_b, sw_b)]
                configs.append((short, long_))
                configs.append((long_, short))
        configs.append(([opts(m, 1, 'symmetric')], [opts(m, 1, 'symmetric'), opts('jacobi' if m != 'jacobi' else 'richardson', 1)]))
        configs.append(([opts(m, 1, 'symmetric'), opts('jacobi' if m != 'jacobi' else 'richardson', 1)], [opts(m, 1, 'symmetric')]))
    # lists of differing length whose first level is an adjoint pair and whose deeper levels pair every sweep with every sweep
    for m in ('gauss_seidel', 'sor', 'block_gauss_seidel', 'gauss_seidel_nr'):
        for first in (('forward', 'backward'), ('symmetric', 'symmetric'), ('backward', 'forward')):
            for deep in sweeps:
                for last in sweeps:
                    configs.append(([opts(m, 1, first[0]), opts(m, 1, deep)], [opts(m, 1, last)]))
                    configs.append(([opts(m, 1, last)], [opts(m, 1, first[1]), opts(m, 1, deep)]))
                    configs.append(([opts(m, 1, first[0]), opts(m, 1, deep), opts(m, 1, deep)], [opts(m, 1, first[1]), opts(m, 1, last)]))
    # lists of EQUAL length in which ONE level (the first, the middle or the last) is not an adjoint pair and all others are:
    # the flag is the conjunction over the levels, so it must be False wherever that level sits
    for m in ('gauss_seidel', 'sor', 'block_gauss_seidel', 'gauss_seidel_nr'):
        for bad in (('forward', 'forward'), ('backward', 'backward'), ('forward', 'symmetric')):
            for depth in (2, 3):
                for pos in range(depth):
                    pre_ = [opts(m, 1, 'symmetric')] * depth
                    post_ = [opts(m, 1, 'symmetric')] * depth
                    pre_[pos], post_[pos] = opts(m, 1, bad[0]), opts(m, 1, bad[1])
                    configs.append((pre_, post_))
    for m in ('jacobi', 'richardson', 'chebyshev'):
        for depth in (2, 3):
            for pos in range(depth):
                pre_ = [opts(m, 1)] * depth
                post_ = [opts(m, 1)] * depth
                post_[pos] = opts(m, 2)
                configs.append((pre_, post_))
    if not (ctx.thorough or ctx.search):
        head = configs[:]
        rng.shuffle(head)
        cffc = {'cf_jacobi', 'fc_jacobi', 'cf_block_jacobi', 'fc_block_jacobi'}
        configs = [c for c in configs if name_of(c[0][0]) == name_of(c[1][0]) or
                   (name_of(c[0][0]) in cffc and name_of(c[1][0]) in cffc)] + head[:500]

    cases, meta = [], []
    classes = {}
    for pre, post in configs:
        for ml, L in ((ml3, L3), (ml4, L4)) if len(pre) + len(post) > 2 else ((ml3, L3),):
            case = dict(pre=core.jsonable(pre), post=core.jsonable(post), levels=L + 1)
            ctx.mark(case)
            parg = pre[0] if len(pre) == 1 and rng.random() < 0.5 else pre
            qarg = post[0] if len(post) == 1 and rng.random() < 0.5 else post
            try:
                with warnings.catch_warnings():
                    warnings.simplefilter('ignore')
                    change_smoothers(ml, presmoother=parg, postsmoother=qarg)
            except Exception as e:   # noqa
                ctx.count('raises')
                ctx.notes.append('change_smoothers(%r, %r) raised %r' % (parg, qarg, e)) if len(ctx.notes) < 5 else None
                continue
            flag = bool(ml.symmetric_smoothing)
            ps = [spec_of(v, ids, consts) for v in pre]
            qs = [spec_of(v, ids, consts) for v in post]
            cases.append('(%s, %s, %s, %d%%nat, %s)' % (consts_term, cq.lst([spec_term(s) for s in ps]),
                                                       cq.lst([spec_term(s) for s in qs]), L, cq.b(flag)))
            meta.append((case, flag))
            ctx.case((repr(pre), repr(post), L), L >= 2, sample=dict(case, flag=flag) if len(ctx.samples) < 4 and flag else None)
            ctx.count('flag=%s' % flag)
            if flag and ml is ml3:
                def kk(a):
                    kw = a[1] if isinstance(a, tuple) else {}
                    # coarse/fine-ordered smoothers: every (f_iterations, c_iterations) combination is its own class
                    # (and every iteration count of the polynomial / stationary methods: their first-iteration shortcuts differ)
                    its_ = kw.get('iterations') if name_of(a) in ('chebyshev', 'richardson', 'jacobi', 'polynomial') else None
                    return (name_of(a), kw.get('sweep'), kw.get('f_iterations'), kw.get('c_iterations'), its_)
                key = (tuple(kk(a) for a in pre), tuple(kk(a) for a in post),
                       all(kw_equal_except_sweep(a, b) for a, b in zip(pre, post)) if len(pre) == len(post) else None)
                classes.setdefault(key, (pre, post))
    ctx.corr_relations = ['ml.symmetric_smoothing after change_smoothers == SmoothFlag.flag with the source lists (exact)']
    bad, errs = cq.run_cases('c05', HEADER, 'caseT', 'chk', cases, shard=800)
    for e in errs:
        ctx.disagree('C05 model evaluation', None, e, None)
    for i in bad[:20]:
        case, flag = meta[i]
        ctx.disagree('symmetric_smoothing flag', case, 'model says %s' % (not flag), flag)
    oracle(ctx, classes)
    handbuilt(ctx)


def oracle(ctx, classes):
    """for each flag-true class: dense V and W preconditioner Hermitian and positive definite"""
    import pyamg
    from pyamg.relaxation.smoothing import change_smoothers
    from pyamg.gallery import poisson
    rng = ctx.sub('oracle')
    Ar = sp.csr_array(poisson((4, 3), format='csr'))
    u = np.exp(1j * np.arange(12) * 0.7)
    Ac = sp.csr_array(sp.diags_array(u) @ Ar @ sp.diags_array(u.conj()))
    probs = []
    for nm, A in (('real', Ar), ('complex', Ac)):
        np.random.seed(1)
        if nm == 'real':
            ml = pyamg.ruge_stuben_solver(A, max_coarse=2, keep=True)
        else:
            ml = pyamg.smoothed_aggregation_solver(A, max_coarse=2, keep=True)
        probs.append((nm, ml))
    # the same operator stored in 2x2 blocks (BSR kernels have their own sweep logic inside the diagonal blocks)
    np.random.seed(1)
    Ab = sp.bsr_array(sp.csr_array(poisson((4, 4), format='csr')), blocksize=(2, 2))
    probs.append(('real-bsr2', pyamg.smoothed_aggregation_solver(Ab, max_coarse=2, keep=True)))
    # ... and a complex Hermitian one (the diagonal blocks and their inverses are complex Hermitian 2x2 matrices)
    np.random.seed(1)
    P44 = sp.csr_array(poisson((4, 4), format='csr'))
    u44 = np.exp(1j * np.arange(16) * 0.9)
    Acb = sp.bsr_array(sp.csr_array(sp.diags_array(u44) @ P44 @ sp.diags_array(u44.conj())), blocksize=(2, 2))
    probs.append(('complex-bsr2', pyamg.smoothed_aggregation_solver(Acb, max_coarse=2, keep=True)))
    # a hierarchy deep enough for the W-cycle to differ from V and F at several levels (>= 4 levels)
    np.random.seed(1)
    Ad_ = sp.csr_array(poisson((36,), format='csr'))
    mld = pyamg.smoothed_aggregation_solver(Ad_, max_coarse=2, keep=True)
    if len(mld.levels) >= 4:
        probs.append(('real-deep', mld))
    items = list(classes.items())
    if not (ctx.thorough or ctx.search) and len(items) > 120:
        keep = [it for it in items if len(it[1][0]) == 1]
        rest = [it for it in items if len(it[1][0]) > 1]
        rng.shuffle(rest)
        items = keep + rest[:40]
    for key, (pre, post) in items:
        for nm, ml in probs:
            names_used = {name_of(a) for a in pre + post}
            if nm in ('complex', 'real-bsr2', 'complex-bsr2') and names_used & {'cf_jacobi', 'fc_jacobi', 'cf_block_jacobi', 'fc_block_jacobi', 'strength_based_schwarz'}:
                continue      # need a C/F splitting / strength matrix, which the SA hierarchy does not carry
            if nm == 'real-deep' and (len(pre) + len(post) > 2 or not names_used <= {'gauss_seidel', 'jacobi', 'richardson', 'chebyshev', 'sor',
                                                                                       'block_gauss_seidel', 'schwarz', None}):
                continue      # (single-smoother classes of the common methods only)
            if nm in ('real-bsr2', 'complex-bsr2') and not names_used & {'gauss_seidel', 'sor', 'block_gauss_seidel', 'block_jacobi', 'jacobi', 'gauss_seidel_ne',
                                                       'gauss_seidel_nr', 'jacobi_ne', 'schwarz'}:
                continue      # (only the relaxation methods that have BSR-specific code paths)
            case = dict(pre=core.jsonable(pre), post=core.jsonable(post), problem=nm)
            ctx.mark(case)
            try:
                with warnings.catch_warnings():
                    warnings.simplefilter('ignore')
                    change_smoothers(ml, presmoother=pre if len(pre) > 1 else pre[0], postsmoother=post if len(post) > 1 else post[0])
                    if not ml.symmetric_smoothing:
                        continue
                    for cyc in ('V', 'W'):
                        M = dense_M(ml, cyc)
                        ctx.case(('M', repr(pre), repr(post), nm, cyc), True)
                        ctx.count('oracle:' + nm)
                        asym = np.linalg.norm(M - M.conj().T) / max(np.linalg.norm(M), 1e-300)
                        # the operator is linear: vectors of tiny or huge norm are mapped like any other
                        Mop_ = ml.aspreconditioner(cycle=cyc)
                        vprobe = np.arange(1.0, M.shape[0] + 1).astype(M.dtype)
                        for ex_ in (-60, 50):
                            got_ = np.asarray(Mop_ @ (vprobe * 2.0 ** ex_)) * 2.0 ** -ex_
                            if _nn_c05(np.linalg.norm(got_ - M @ vprobe)) > 1e-9 * (1 + np.linalg.norm(M @ vprobe)):
                                ctx.fail('preconditioner-not-homogeneous', 'M (2^%d v) != 2^%d M v (%s-cycle): deviation %.3g'
                                         % (ex_, ex_, cyc, np.linalg.norm(got_ - M @ vprobe)), dict(case, cycle=cyc))
                                break
                        meth = name_of(pre[0])
                        kweq = all(kw_equal_except_sweep(a, b) for a, b in zip(pre, post)) if len(pre) == len(post) else True
                        if asym > 1e-10:
                            sig = 'flag-true-not-hermitian/' + ('kwargs-differ/' if not kweq else '') + str(meth)
                            ctx.fail(sig, '%s-cycle preconditioner: |M - M^H|/|M| = %.3g with symmetric_smoothing=True' % (cyc, asym),
                                     dict(case, cycle=cyc))
                        else:
                            ev = np.linalg.eigvalsh((M + M.conj().T) / 2)
                            # hypothesis of C05_preconditioner_positive_definite: the error propagation I - M A is a
                            # strict contraction in the energy norm (then the theorem gives M > 0)
                            Ad = ml.levels[0].A.toarray()
                            wA, VA = np.linalg.eigh(Ad)
                            if wA.min() > 0:
                                Ah = (VA * np.sqrt(wA)) @ VA.conj().T
                                Aih = (VA / np.sqrt(wA)) @ VA.conj().T
                                nE = np.linalg.norm(Ah @ (np.eye(Ad.shape[0]) - M @ Ad) @ Aih, 2)
                                ctx.count('oracle:strict-energy-contraction' if nE < 1 - 1e-12 else 'oracle:no-strict-contraction')
                                if nE < 1 - 1e-9 and ev.min() <= 0:
                                    ctx.fail('contraction-but-not-positive-definite/' + str(meth), '|E|_A = %.6g, min eig %.3g' % (nE, ev.min()), dict(case, cycle=cyc))
                            if ev.min() <= 1e-12 * abs(ev).max():
                                ctx.fail('flag-true-not-positive-definite/' + str(meth), 'min eigenvalue %.3g' % ev.min(), dict(case, cycle=cyc))
            except Exception as e:   # noqa
                ctx.notes.append('oracle %r/%r on %s: %r' % (pre, post, nm, e)) if len(ctx.notes) < 8 else None
    # the conjugate-gradient path warns iff the flag is false
    nm, ml = probs[0]
    b = np.ones(ml.levels[0].A.shape[0])
    for pre, post, expect in ((('gauss_seidel', {'sweep': 'forward'}), ('gauss_seidel', {'sweep': 'backward'}), True),
                              (('gauss_seidel', {'sweep': 'forward'}), ('gauss_seidel', {'sweep': 'forward'}), False)):
        change_smoothers(ml, presmoother=pre, postsmoother=post)
        with warnings.catch_warnings(record=True) as w:
            warnings.simplefilter('always')
            ml.solve(b, accel='cg', maxiter=2)
        warned = any('non-symmetric multigrid preconditioner' in str(x.message) for x in w)
        if warned == expect or bool(ml.symmetric_smoothing) != expect:
            ctx.fail('cg-warning', 'flag %s, warned %s for %r/%r' % (ml.symmetric_smoothing, warned, pre, post), dict(pre=pre, post=post))
        ctx.case(('cg-warning', repr(pre), repr(post)), True)


def handbuilt(ctx):
    """a hierarchy assembled by hand (levels + smoothers attached directly, no change_smoothers call): whatever the flag
    says then, it must not report symmetric smoothing for a non-Hermitian preconditioner"""
    import pyamg
    from pyamg.gallery import poisson
    from pyamg.multilevel import MultilevelSolver
    from pyamg.relaxation import relaxation as R
    A = poisson((7, 6), format='csr')
    np.random.seed(ctx.seed)
    src = pyamg.smoothed_aggregation_solver(A, max_coarse=4)
    for tag, pre, post in (('forward/forward', 'forward', 'forward'), ('forward/backward', 'forward', 'backward')):
        levels = []
        for L in src.levels:
            Nl = MultilevelSolver.Level()
            Nl.A = L.A.copy()
            if hasattr(L, 'P'):
                Nl.P, Nl.R = L.P.copy(), L.R.copy()
            levels.append(Nl)
        ml = MultilevelSolver(levels, coarse_solver='pinv')
        for Nl in ml.levels[:-1]:
            Nl.presmoother = lambda A_, x_, b_, sw=pre: R.gauss_seidel(A_, x_, b_, iterations=1, sweep=sw)
            Nl.postsmoother = lambda A_, x_, b_, sw=post: R.gauss_seidel(A_, x_, b_, iterations=1, sweep=sw)
        case = dict(handbuilt=True, smoothers=tag, flag=bool(ml.symmetric_smoothing))
        ctx.mark(case)
        ctx.case(('handbuilt', tag), True)
        ctx.count('handbuilt:flag=%s' % bool(ml.symmetric_smoothing))
        if ml.symmetric_smoothing:
            for cyc in ('V', 'W'):
                M = dense_M(ml, cyc)
                asym = np.linalg.norm(M - M.conj().T) / np.linalg.norm(M)
                if asym > 1e-10:
                    ctx.fail('handbuilt/flag-true-not-hermitian', 'hand-assembled hierarchy (%s Gauss-Seidel): symmetric_smoothing=True but |M - M^H|/|M| = %.3g (%s-cycle)'
                             % (tag, asym, cyc), case)
        # the CG path must warn unless the flag is (rightly) true
        with warnings.catch_warnings(record=True) as w:
            warnings.simplefilter('always')
            ml.solve(np.ones(A.shape[0]), accel='cg', maxiter=2)
        warned = any('non-symmetric multigrid preconditioner' in str(x.message) for x in w)
        if tag == 'forward/forward' and not warned:
            ctx.fail('handbuilt/cg-no-warning', 'CG accelerated solve with a non-Hermitian hand-assembled preconditioner gave no warning', case)


def search(ctx):
    run(ctx)


def replay(ctx, data):
    case = data.get('case') or {}

    def back(v):
        return [tuple(x) if isinstance(x, list) else x for x in v]
    if 'pre' in case:
        pre, post = back(case['pre']), back(case['post'])
        pre = [(p[0], p[1]) if isinstance(p, tuple) else p for p in pre]
        post = [(p[0], p[1]) if isinstance(p, tuple) else p for p in post]
        oracle(ctx, {('replay',): (pre, post)})
