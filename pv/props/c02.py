"""C02 -- SPD problems: no multigrid cycle increases the energy norm of the error."""
import numpy as np
import scipy.linalg as sla
import scipy.sparse as sp

from .. import hier

def _nn(v):
    """NaN counts as 'exceeds every bound' in the oracle comparisons"""
    return np.inf if np.isnan(v) else v


TECHNIQUE = 'Coq/mathcomp proof of the multilevel energy theorem (V/W/F, any depth) + per-hierarchy hypothesis check'
LEVEL_TEXT = ('Kernel-checked theorems (Props/C02.v, mathcomp, any real field, closed under the global context): for a '
              'hierarchy of any depth whose level matrices are symmetric with nonnegative energy, R = P^T, Galerkin '
              'coarse matrices, exact coarsest solve and smoothers whose error propagation is energy-nonexpansive, every '
              'V-, W- and F-cycle (any cycles_per_level) of the C03 cycle function maps an error to one of no larger '
              'energy, hence k cycles are monotone; (block) Gauss-Seidel in any order / number of sweeps, multiplicative '
              'Schwarz and SOR with 0<=omega<=2 are proved admissible smoothers (successive damped A-orthogonal '
              'projections), and the exact/inexact coarse-grid correction lemma is proved.  On every run the hypotheses '
              'are checked on the very hierarchies built by the working tree (R == P^H exactly, Galerkin product, exact '
              'coarse solve, smoother energy norm <= 1) and the dense error-propagation matrix of the implementation '
              'must have energy norm <= 1 for V, W and F.')
LEVEL_NOTE = ('Real symmetric case proved; complex Hermitian problems, damped Jacobi/Richardson (spectral-radius estimate) '
              'and Chebyshev smoothing enter only through the numerically checked hypothesis "smoother energy norm <= 1" '
              'and the end-to-end oracle.  Exact arithmetic; rounding only through the 1e-10 oracle tolerance.')
RULE = ('HPD matrices (Poisson 1-3D, rotated anisotropic diffusion, weighted graph Laplacians with shifts, Q1 elasticity '
        'BSR, unitary-diagonal complex rotation) x constructors (classical, SA, SA-energy, root-node, pairwise) x smoother '
        'family (gauss_seidel fwd/bwd/sym, block_gauss_seidel, sor 0<omega<2, jacobi/richardson omega<=4/3 with rho, '
        'chebyshev, schwarz) x coarse (pinv, lu, cholesky, splu) x cycle V/W/F x cpl: per-level hypotheses and dense '
        'energy norm of the error propagation.  Non-trivial: >= 2 levels; distinct = distinct configuration.')
RULE += (' '
         'Smoother family incl. several iterations of Chebyshev / Richardson / block Gauss-Seidel and genuine 2x2 block Gauss-Seidel, dealt out so that each is used as pre- and post-smoother; nonzero right-hand sides with the guess at / near the exact solution (the error map must not depend on b).')
THOROUGH_ROUNDS = 6
TRUSTED = ['NumPy/SciPy dense eigen-decompositions on the oracle side', 'C03 (cycle = textbook recursion), C09 (kernels = splittings)']
PARTIAL = ['complex Hermitian case, Jacobi/Richardson damping bound and Chebyshev: hypothesis checked numerically, not proved']
NOT_COVERED = ['rounding-error analysis']

FAMILY = [('gauss_seidel', {'sweep': 'symmetric'}), ('gauss_seidel', {'sweep': 'forward'}),
          ('gauss_seidel', {'sweep': 'backward', 'iterations': 2}),
          ('block_gauss_seidel', {'sweep': 'symmetric', 'blocksize': 1}),
          ('sor', {'omega': 1.5, 'sweep': 'forward'}), ('sor', {'omega': 0.4, 'sweep': 'symmetric'}),
          ('jacobi', {'omega': 4.0 / 3.0}), ('jacobi', {'omega': 1.0, 'iterations': 2}),
          ('richardson', {'omega': 1.0}), ('chebyshev', {'degree': 3}), ('schwarz', {'sweep': 'symmetric'}),
          # several iterations of the polynomial / stationary methods (coarse-level smoothing starts from a zero guess)
          ('chebyshev', {'degree': 2, 'iterations': 2}), ('richardson', {'omega': 1.0, 'iterations': 3}),
          ('block_gauss_seidel', {'sweep': 'forward', 'blocksize': 1, 'iterations': 2}),
          # genuine 2x2 blocks (with blocksize 1 the setup substitutes point Gauss-Seidel); used where every smoothing
          # level has an even number of unknowns
          ('block_gauss_seidel', {'sweep': 'symmetric', 'blocksize': 2}), ('block_gauss_seidel', {'sweep': 'backward', 'blocksize': 2})]


def energy_norm(E, A):
    """|| A^{1/2} E A^{-1/2} ||_2 for Hermitian positive definite A"""
    w, V = np.linalg.eigh(A)
    Ah = (V * np.sqrt(w)) @ V.conj().T
    Aih = (V / np.sqrt(w)) @ V.conj().T
    M = Ah @ E @ Aih
    if not np.isfinite(M).all():
        return float('inf')       # an operator with overflowed / undefined entries bounds nothing
    return np.linalg.norm(M, 2)


def run(ctx):
    from pyamg.relaxation.smoothing import change_smoothers
    from pyamg.multilevel import coarse_grid_solver
    rng = ctx.sub('cfg')
    mats = hier.hpd_matrices(rng)
    bl = [b for b in hier.builders() if b[0] != 'onelevel']
    combos = [(b, m) for b in bl for m in mats]
    if not (ctx.thorough or ctx.search):
        rng.shuffle(combos)
        forced = [c for c in combos if c[1][0].startswith('complex') and c[0][0] in ('sa', 'rootnode')][:4]
        combos = forced + [c for c in combos if c not in forced][:38]
    # complex Hermitian problems with a coarsest level of several unknowns (a Hermitian, genuinely complex coarse matrix),
    # every direct coarse solver
    import pyamg
    cm = [m for m in mats if m[0].startswith('complex')]
    extra = []
    for k, (mname, A) in enumerate(cm * 4):
        extra.append((('sa-coarse8', lambda A_: pyamg.smoothed_aggregation_solver(A_, max_coarse=8), 'sym'), (mname, A)))
    # the same complex Hermitian problems (and a real one) stored in 2x2 blocks: the BSR relaxation kernels
    for k, (mname, A) in enumerate((cm * 3)[:3] + [m for m in mats if m[0] == 'poisson2d-6x5'] * 2):
        extra.append((('sa-bsr2', lambda A_: pyamg.smoothed_aggregation_solver(sp.bsr_array(sp.csr_array(A_), blocksize=(2, 2)), max_coarse=4), 'sym'),
                      (mname + '/bsr2', A)))
    # forced smoothers (tag after '|'): complex Hermitian problems in 2x2 blocks with the block smoothers (their diagonal-block
    # inverses are complex), and SPD two-field problems in BSR(2,2) storage -- two unknowns per node, coupled inside the node by
    # [[1, c], [c, 1]] and between neighbours by g [[1, -1], [-1, 1]] -- with point Jacobi at its largest admissible weight
    for k, (mname, A) in enumerate((cm * 2)[:2]):
        extra.append((('sa-bsr2|blockgs', lambda A_: pyamg.smoothed_aggregation_solver(sp.bsr_array(sp.csr_array(A_), blocksize=(2, 2)), max_coarse=4), 'sym'),
                      (mname + '/bsr2', A)))
        extra.append((('rootnode-bsr2|blockjacobi', lambda A_: pyamg.rootnode_solver(sp.bsr_array(sp.csr_array(A_), blocksize=(2, 2)), max_coarse=4), 'sym'),
                      (mname + '/bsr2', A)))
    # over-relaxed SOR (1 < omega < 2) on levels stored in 2x2 blocks: A-nonexpansive as any SOR with omega in (0, 2), whatever
    # the storage of the level matrix
    for k, (mname, A) in enumerate([m for m in mats if m[0] == 'poisson2d-6x5'] + (cm * 1)[:1]):
        extra.append((('sa-bsr2|sor', lambda A_: pyamg.smoothed_aggregation_solver(sp.bsr_array(sp.csr_array(A_), blocksize=(2, 2)), max_coarse=4), 'sym'),
                      (mname + '/bsr2', A)))
        extra.append((('rootnode-bsr2|sor', lambda A_: pyamg.rootnode_solver(sp.bsr_array(sp.csr_array(A_), blocksize=(2, 2)), max_coarse=4), 'sym'),
                      (mname + '/bsr2', A)))
    from pyamg.gallery import poisson as _poisson

    def two_field(T, c, g):
        Bm, Gm = np.array([[1.0, c], [c, 1.0]]), np.array([[1.0, -1.0], [-1.0, 1.0]])
        return sp.bsr_array(sp.csr_array(sp.kron(sp.eye_array(T.shape[0]), Bm) + g * sp.kron(T, Gm)), blocksize=(2, 2))
    for tname, T, c_, g_ in (('chain-24', _poisson((24,), format='csr'), 0.5, 10.0), ('grid-6x6', _poisson((6, 6), format='csr'), 0.5, 10.0),
                             ('chain-24', _poisson((24,), format='csr'), 0.2, 100.0)):
        # (plain SA with its single default candidate gives a singular coarse matrix on these problems: outside the hypotheses)
        for bn, ctor in (('rootnode', pyamg.rootnode_solver), ('pairwise', pyamg.pairwise_solver)):
            extra.append(((bn + '-twofield|jacobi', lambda A_, ctor=ctor: ctor(A_), 'sym'), ('twofield-%s-c%g-g%g' % (tname, c_, g_), two_field(T, c_, g_))))
    # problems in other units (entries ~1e-6 and ~1e6) with the smoothers whose weights come from a spectral-radius estimate
    Pb = sp.csr_array(_poisson((6, 5), format='csr'))
    for sc, tg in ((2.0 ** -20, '*2^-20'), (2.0 ** 20, '*2^20')):
        for bn, ctor in (('sa', pyamg.smoothed_aggregation_solver), ('rs', lambda A_, **kw: pyamg.ruge_stuben_solver(sp.csr_array(A_), **kw))):
            extra.append(((bn + '-scaled|poly', lambda A_, ctor=ctor: ctor(A_, max_coarse=4), 'sym'), ('poisson2d-6x5' + tg, sp.csr_array(Pb * sc))))
    one = [b for b in hier.builders() if b[0] == 'onelevel'][0]
    extra += [(one, m) for m in mats[:3]]
    combos = extra + list(combos)
    for ci, ((bname, f, _), (mname, A)) in enumerate(combos):
        np.random.seed(ctx.seed)
        try:
            ml = f(A)
        except Exception:   # noqa  (unsupported combination, e.g. complex classical; C04 owns construction)
            continue
        nlev = len(ml.levels)
        if nlev < 2:
            # a one-level hierarchy is a direct solve: from any guess and any right-hand side the error is gone after one call
            A1 = hier.dense_of(ml.levels[0].A)
            n1 = A1.shape[0]
            b1 = np.array([rng.uniform(-1, 1) for _ in range(n1)]).astype(A1.dtype)
            x01 = np.array([rng.uniform(-1, 1) for _ in range(n1)]).astype(A1.dtype)
            xs1 = np.linalg.solve(A1, b1)
            x11 = ml.solve(b1, x0=x01, maxiter=1, tol=1e-300)
            e0_ = np.sqrt(abs(np.vdot(xs1 - x01, A1 @ (xs1 - x01))))
            e1_ = np.sqrt(abs(np.vdot(xs1 - x11, A1 @ (xs1 - x11))))
            ctx.case((bname, mname, 'one-level'), False)
            ctx.count('one-level')
            if _nn(e1_) > 1e-8 * (e0_ + np.sqrt(abs(np.vdot(xs1, A1 @ xs1)))):
                ctx.fail('cycle-increases-energy/one-level', 'one-level hierarchy (direct solve), b != 0, x0 != 0: energy error %.3g -> %.3g, expected ~0' % (e0_, e1_),
                         dict(builder=bname, matrix=mname, levels=1))
            continue
        A0 = hier.dense_of(ml.levels[0].A)
        cplx = np.iscomplexobj(A0)
        # dealt out systematically (every family member is used as pre- and as post-smoother), then shuffled for the rest
        smoothers = list(FAMILY)
        rng.shuffle(smoothers)
        smoothers = [FAMILY[ci % len(FAMILY)], FAMILY[(5 * ci + 2) % len(FAMILY)]] + smoothers
        if bname.endswith('|poly'):
            smoothers = [[('richardson', {'omega': 1.0}), ('chebyshev', {'degree': 3})], [('chebyshev', {'degree': 2, 'iterations': 2}), ('jacobi', {'omega': 4.0 / 3.0})]][ci % 2] + smoothers
        if bname.endswith('|jacobi'):
            smoothers = [('jacobi', {'omega': 4.0 / 3.0}), ('jacobi', {'omega': 4.0 / 3.0})] + smoothers
        if bname.endswith('|sor'):
            smoothers = [[('sor', {'omega': 1.5, 'sweep': 'forward'}), ('sor', {'omega': 1.9, 'sweep': 'backward'})],
                         [('sor', {'omega': 1.8, 'sweep': 'backward', 'iterations': 2}), ('gauss_seidel', {'sweep': 'forward', 'omega': 1.7})]][ci % 2] + smoothers
        if bname.endswith('|blockgs'):
            smoothers = [('block_gauss_seidel', {'sweep': 'symmetric', 'blocksize': 2}), ('block_gauss_seidel', {'sweep': 'forward', 'blocksize': 2})] + smoothers
        if bname.endswith('|blockjacobi'):
            smoothers = [('block_jacobi', {'blocksize': 2}), ('block_gauss_seidel', {'sweep': 'backward', 'blocksize': 2})] + smoothers
        if any(ml.levels[l].A.shape[0] % 2 for l in range(nlev - 1)):
            smoothers = [(nm, dict(kw, blocksize=1)) if kw.get('blocksize') == 2 else (nm, kw) for nm, kw in smoothers]
        for pre, post in [(smoothers[0], smoothers[1]), (smoothers[2], smoothers[2])][:1 if not ctx.thorough else 2]:
            coarse = ['splu', 'pinv', 'lu', 'cholesky'][ci % 4]      # dealt out, so that complex problems meet every solver
            ml.coarse_solver = coarse_grid_solver(coarse)
            case = dict(builder=bname, matrix=mname, pre=pre, post=post, coarse=coarse, levels=nlev)
            ctx.mark(case)
            try:
                change_smoothers(ml, presmoother=pre, postsmoother=post)
            except Exception as e:   # noqa
                ctx.notes.append('change_smoothers %s/%s on %s/%s: %r' % (pre[0], post[0], bname, mname, e))
                continue
            # ---- hypotheses of the theorem, on this very hierarchy
            for l in range(nlev - 1):
                L = ml.levels[l]
                Ad, P, R = hier.dense_of(L.A), hier.dense_of(L.P), hier.dense_of(L.R)
                Ac = hier.dense_of(ml.levels[l + 1].A)
                if not np.array_equal(R, P.conj().T):
                    ctx.fail('hypothesis/R-not-PH', 'level %d: R != P^H' % l, case)
                if _nn(np.linalg.norm(Ac - R @ Ad @ P)) > 1e-10 * (1 + np.linalg.norm(Ac)):
                    ctx.fail('hypothesis/not-galerkin', 'level %d: |Ac - RAP| = %.3g' % (l, np.linalg.norm(Ac - R @ Ad @ P)), case)
                if _nn(np.linalg.norm(Ad - Ad.conj().T)) > 1e-12 * np.linalg.norm(Ad) or np.min(np.linalg.eigvalsh((Ad + Ad.conj().T) / 2)) <= 0:
                    ctx.fail('hypothesis/level-not-HPD', 'level %d' % l, case)
                n = Ad.shape[0]
                for nm, sm in (('pre', L.presmoother), ('post', L.postsmoother)):
                    S = np.zeros((n, n), dtype=Ad.dtype)
                    for j in range(n):
                        x = np.zeros(n, dtype=Ad.dtype)
                        x[j] = 1
                        sm(L.A, x, np.zeros(n, dtype=Ad.dtype))
                        S[:, j] = x
                    en = energy_norm(S, Ad)
                    ctx.count('smoother:' + (pre if nm == 'pre' else post)[0])
                    if en > 1 + 1e-10:
                        ctx.fail('smoother-expansive/%s' % (pre if nm == 'pre' else post)[0],
                                 'level %d %s-smoother has energy norm %.12g' % (l, nm, en), case)
            Acd = hier.dense_of(ml.levels[-1].A)
            nc = Acd.shape[0]
            X = np.column_stack([ml.coarse_solver(ml.levels[-1].A, np.eye(nc, dtype=Acd.dtype)[:, j]) for j in range(nc)])
            if _nn(np.linalg.norm(Acd @ X - np.eye(nc))) > 1e-8 * np.linalg.cond(Acd):
                ctx.fail('hypothesis/coarse-solve-inexact', '|A X - I| = %.3g' % np.linalg.norm(Acd @ X - np.eye(nc)), case)
            # ---- end to end: dense error propagation of the implementation
            n0 = A0.shape[0]
            for cname, cpl in (('V', 1), ('W', 1), ('F', 1), ('F', 2)):
                E = np.zeros((n0, n0), dtype=A0.dtype)
                z = np.zeros(n0, dtype=A0.dtype)
                for j in range(n0):
                    e = np.zeros(n0, dtype=A0.dtype)
                    e[j] = 1
                    E[:, j] = ml.solve(z, x0=e, maxiter=1, tol=1e-300, cycle=cname, cycles_per_level=cpl)
                en = energy_norm(E, A0)
                cs = dict(case, cycle=cname, cpl=cpl, energy_norm=float(en))
                ctx.case((bname, mname, pre[0], str(pre[1]), post[0], str(post[1]), coarse, cname, cpl), True,
                         sample=cs if len(ctx.samples) < 4 else None)
                ctx.count('cycle:' + cname)
                ctx.count('builder:' + bname)
                ctx.count('complex' if cplx else 'real')
                if not en <= 1 + 1e-10:
                    ctx.fail('cycle-increases-energy/%s' % cname,
                             'energy norm of the %s-cycle error propagation is %.12g > 1' % (cname, en), cs)
                # monotone along the stand-alone solve for a random rhs
                b = np.array([rng.uniform(-1, 1) for _ in range(n0)]).astype(A0.dtype)
                xs = np.linalg.solve(A0, b)
                errs = []
                ml.solve(b, x0=np.zeros(n0, dtype=A0.dtype), maxiter=4, tol=1e-300, cycle=cname, cycles_per_level=cpl,
                         callback=lambda xk: errs.append(np.sqrt(abs(np.vdot(xs - xk, A0 @ (xs - xk))))))
                e0 = np.sqrt(abs(np.vdot(xs, A0 @ xs)))
                seq = [e0] + errs
                if any(seq[i + 1] > seq[i] * (1 + 1e-9) + 1e-13 for i in range(len(seq) - 1)):
                    ctx.fail('solve-energy-not-monotone/%s' % cname, 'energy errors %s' % seq, cs)
                # "for every right-hand side and every initial guess": the error map does not depend on b -- started AT
                # the solution of a nonzero right-hand side the cycle stays there, started near it the error does not grow
                for dist in (0.0, 1e-3):
                    d0 = dist * np.array([rng.uniform(-1, 1) for _ in range(n0)]).astype(A0.dtype)
                    x1 = ml.solve(b, x0=xs + d0, maxiter=1, tol=1e-300, cycle=cname, cycles_per_level=cpl)
                    ed0 = np.sqrt(abs(np.vdot(d0, A0 @ d0)))
                    ed1 = np.sqrt(abs(np.vdot(xs - x1, A0 @ (xs - x1))))
                    if _nn(ed1) > ed0 * (1 + 1e-9) + 1e-9 * e0:
                        ctx.fail('cycle-moves-exact-solution/%s' % cname if dist == 0 else 'cycle-increases-energy/%s/nonzero-rhs' % cname,
                                 'b != 0, guess at distance %.3g (energy) from the solution: error after one cycle %.3g' % (ed0, ed1), cs)
                ctx.count('nonzero-rhs-guess-at-solution')
                # mixed types: a right-hand side of a narrower type than the guess (real b with a complex guess on a complex
                # problem, integer b with a float guess on a real one) -- every digit of the guess counts
                if np.iscomplexobj(A0):
                    b_m = np.real(b).copy()
                else:
                    b_m = np.round(3 * np.real(b)).astype(np.int64)
                xs_m = np.linalg.solve(A0, b_m.astype(A0.dtype))
                d_m = 0.05 * (np.array([rng.uniform(-1, 1) for _ in range(n0)]) + (1j * np.array([rng.uniform(-1, 1) for _ in range(n0)]) if np.iscomplexobj(A0) else 0))
                x_m = ml.solve(b_m, x0=(xs_m + d_m).astype(A0.dtype), maxiter=1, tol=1e-300, cycle=cname, cycles_per_level=cpl)
                em0 = np.sqrt(abs(np.vdot(d_m, A0 @ d_m)))
                em1 = np.sqrt(abs(np.vdot(xs_m - x_m, A0 @ (xs_m - x_m))))
                ctx.count('mixed-dtype-guess')
                if _nn(em1) > em0 * (1 + 1e-9):
                    ctx.fail('cycle-increases-energy/%s/mixed-dtypes' % cname, 'b of type %s, guess of type %s: energy error %.3g -> %.3g after one cycle'
                             % (b_m.dtype, A0.dtype, em0, em1), cs)
    ctx.corr_relations = ['hypotheses of C02_cycle_does_not_increase_energy checked on each built hierarchy '
                          '(R == P^H exact, Galerkin, HPD levels, exact coarse solve, smoother energy norm <= 1)',
                          'dense error propagation of MultilevelSolver.solve: energy norm <= 1 (V, W, F)']


def search(ctx):
    run(ctx)


def replay(ctx, data):
    ctx.search = True
    run(ctx)
