"""C09 -- relaxation sweeps compute exactly their defining splitting update."""
import numpy as np
import scipy.sparse as sp

from .. import coqrun as cq
from .. import gen

TECHNIQUE = 'Coq proof of the row equations of the sweep models + bit-exact kernel/model correspondence'
LEVEL_TEXT = ('Kernel-checked theorems (Props/C09.v) about the Gallina models of the native sweeps over an arbitrary '
              'field: after relaxing row i the row equation d*x_i + sum_{j<>i} a_ij x_j = b_i holds (Gauss-Seidel), '
              'its omega-weighted forms hold for SOR and Jacobi, rows with zero diagonal and all other entries are '
              'untouched, whole sweeps leave zero-diagonal rows and every entry outside the swept range unchanged (C09_sweeps_leave_zero_diagonal_and_unswept_rows, also for the indexed kernels), the exact solution is a fixed point of every point sweep, k iterations are the k-fold '
              'composition and SOR with omega=1 is Gauss-Seidel; for the Kaczmarz step (gauss_seidel_ne, any conjugation function) '
              'the row product after the step is a_i.x + |a_i|^2 delta, so with Dinv = 1/|a_i|^2 the residual of row i is '
              'multiplied by (1 - omega), entries outside the row are untouched and a vector solving every row is a fixed '
              'point of the sweep; for the column step of gauss_seidel_nr the residual component along the column is multiplied by '
              '(1 - omega), only x_i and the residual entries of the column change, and a residual orthogonal to the column leaves the '
              'state unchanged.  The same definitions evaluated at PrimFloat must '
              'reproduce bit-for-bit what the rebuilt working-tree kernels (14 of them) and the Python driver '
              'return, and at Q exactly on dyadic inputs; a dense NumPy restatement of every splitting (all methods, '
              'sweeps, iteration counts, omegas, CSR/BSR, real/complex, single/double) is the property oracle.')
LEVEL_NOTE = ('Exact-arithmetic theorems for the point kernels and the Kaczmarz row step; block / other normal-equation / Schwarz / polynomial variants '
              'are tied by bit-exact (real double) correspondence and decided by the dense oracle.  Block inverses '
              '(pinv_array, LAPACK gelss) are contracts.  Complex and float32 data: oracle only.')
RULE = ('random square CSR (n<=8; empty rows, missing and zero diagonals, unsorted columns) and their BSR forms; every '
        'native kernel with forward/backward ranges, 0-3 iterations, omega in {1,1/2,3/2,4/3,0.3}, block sizes dividing '
        'n, arbitrary index sets with repeats: PrimFloat bit-exact and (dyadic inputs) Q exact against the Gallina '
        'model; every public relaxation function against a dense NumPy splitting formula (tol 1e-10 double, 1e-4 '
        'single), CSR vs BSR, A/b bytes, zero-diagonal rows, fixed point.  Non-trivial: the matrix has an '
        'off-diagonal entry and the sweep changes x; distinct = distinct (kind, options, input bytes).')
RULE += (' '
         'Every public call sees a fresh copy of the matrix, half of them with column indices stored in shuffled order; zero initial guess combined with 2-3 iterations every fifth round.')
THOROUGH_ROUNDS = 3
TRUSTED = ['pinv_array / LAPACK gelss for block inverses (contract: pseudo-inverse of the diagonal block)',
           'SciPy tobsr/tocsr conversions, get_diagonal']
PARTIAL = ['block, jacobi_ne, Schwarz and polynomial variants: model correspondence + oracle, no row-equation theorem yet',
           'BSR = CSR equivalence of bsr_gauss_seidel: decided by the oracle (to rounding), not proved']
NOT_COVERED = ['chebyshev coefficients (C02 treats Chebyshev smoothing as a checked hypothesis)']
HEADER = ('From Coq Require Import ZArith List QArith PrimFloat.\nImport ListNotations.\n'
          'Require Import PV.Base.Ops PV.Model.RelaxRun.\nOpen Scope Z_scope.\n')

I32 = np.int32


# ============================== dense references ==============================
def ref_gs(D, x, b, order, omega=1.0):
    x = x.copy()
    for i in order:
        d = D[i, i]
        if d == 0:
            continue
        r = b[i] - (D[i, :] @ x - d * x[i])
        x[i] = omega * (r / d) + (1 - omega) * x[i]
    return x


def ref_jacobi(D, x, b, rows, omega):
    x0 = x.copy()
    x = x.copy()
    for i in rows:
        d = D[i, i]
        if d == 0:
            continue
        r = b[i] - (D[i, :] @ x0 - d * x0[i])
        x[i] = (1 - omega) * x0[i] + omega * r / d
    return x


def _single(D):
    return np.asarray(D).dtype in (np.float32, np.complex64)


def pinv_ref(B):
    """reference pseudo-inverse with a cut-off between the data's precision and its square root (the library's
    LAPACK / Jacobi-SVD routines each use their own cut-off; ambiguous blocks are excluded by block_ok)"""
    return np.linalg.pinv(np.asarray(B).astype(np.complex128 if np.iscomplexobj(B) else np.float64),
                          rcond=1e-5 if _single(B) else 1e-10)


def block_ok(B):
    """no singular value in the band where 'numerically zero' depends on the routine's cut-off"""
    B = np.asarray(B)
    if B.size == 0:
        return True
    sv = np.linalg.svd(B.astype(np.complex128), compute_uv=False)
    if sv[0] == 0:
        return True
    lo, hi = (1e-12, 1e-2) if _single(B) else (1e-14, 1e-6)
    return not any(lo < v / sv[0] < hi for v in sv)


def blocks_dinv(D, bs):
    nb = D.shape[0] // bs
    return [pinv_ref(D[k * bs:(k + 1) * bs, k * bs:(k + 1) * bs]) for k in range(nb)]


def ref_block_jacobi(D, x, b, rows, omega, bs, Dinv):
    x0 = x.copy()
    x = x.copy()
    for k in rows:
        sl = slice(k * bs, (k + 1) * bs)
        r = b[sl] - (D[sl, :] @ x0 - D[sl, sl] @ x0[sl])
        x[sl] = (1 - omega) * x0[sl] + omega * (Dinv[k] @ r)
    return x


def ref_block_gs(D, x, b, order, bs, Dinv):
    x = x.copy()
    for k in order:
        sl = slice(k * bs, (k + 1) * bs)
        r = b[sl] - (D[sl, :] @ x - D[sl, sl] @ x[sl])
        x[sl] = Dinv[k] @ r
    return x


def ref_jacobi_ne(D, x, b, omega):
    dd = np.sum(np.abs(D) ** 2, axis=1)
    dinv = np.where(dd != 0, 1.0 / np.where(dd != 0, dd, 1), 0)
    return x + omega * (D.conj().T @ ((b - D @ x) * dinv))


def ref_gs_ne(D, x, b, order, omega):
    x = x.copy()
    dd = np.sum(np.abs(D) ** 2, axis=1)
    for i in order:
        if dd[i] == 0:
            continue
        delta = (b[i] - D[i, :] @ x) / dd[i] * omega
        x = x + D[i, :].conj() * delta
    return x


def ref_gs_nr(D, x, b, order, omega):
    x = x.copy()
    r = b - D @ x
    dd = np.sum(np.abs(D) ** 2, axis=0)
    for i in order:
        if dd[i] == 0:
            continue
        delta = (D[:, i].conj() @ r) / dd[i] * omega
        x[i] += delta
        r = r - delta * D[:, i]
    return x


def ref_schwarz(D, x, b, order, subdomains):
    x = x.copy()
    for k in order:
        S = subdomains[k]
        if len(S) == 0:
            continue
        r = (b - D @ x)[S]
        x[S] += pinv_ref(D[np.ix_(S, S)]) @ r
    return x


def orders(sweep, n):
    f = list(range(n))
    return {'forward': [f], 'backward': [f[::-1]], 'symmetric': [f, f[::-1]]}[sweep]


# ================================ generators ==================================
def rand_csr(rng, n, values, dtype=float, diag='mixed'):
    rows = gen.random_pattern_rows(rng, n, rng.choice([0.25, 0.5, 0.9]), values, diag=diag,
                                   sym=rng.random() < 0.3, zero_prob=0.0)
    A = gen.csr_from_rows(n, rows, dtype=dtype)
    return A


def vec(rng, n, values, dtype=float):
    return np.array([rng.choice(values) for _ in range(n)], dtype=dtype)


def close(a, b, tol):
    a, b = np.asarray(a), np.asarray(b)
    if not (np.all(np.isfinite(a)) and np.all(np.isfinite(b))):
        return bool(np.all(np.isfinite(a) == np.isfinite(b)))
    return bool(np.linalg.norm(a - b) <= tol * max(1.0, np.linalg.norm(b), np.linalg.norm(a)))


# ============================ kernel correspondence ============================
def kernel_cases(ctx, count, values, exactq):
    """calls of the native kernels; returns list of (kind, zs, fs, zls, fls, out, case)"""
    from pyamg import amg_core
    rng = ctx.sub('kern-' + ('q' if exactq else 'f'))
    res = []
    pow2 = [1.0, 2.0, 4.0, 0.5]
    omegas = [1.0, 0.5, 1.5, 0.75, 0.25] if exactq else [1.0, 0.5, 1.5, 4.0 / 3.0, 0.3]
    for _ in range(count):
        n = rng.choice([1, 2, 3, 4, 6, 8])
        A = rand_csr(rng, n, values)
        if exactq:     # power-of-two (or zero / missing) diagonals keep float arithmetic exact
            for i in range(n):
                for k in range(A.indptr[i], A.indptr[i + 1]):
                    if A.indices[k] == i and A.data[k] != 0:
                        A.data[k] = rng.choice(pow2) * rng.choice([1, -1])
        x = vec(rng, n, values)
        b = vec(rng, n, values)
        if not exactq and rng.random() < 0.25:
            # the same system in other units (an exact power of two far below one): a "zero diagonal" is an exact zero
            A.data *= 2.0 ** -60
            b = b * 2.0 ** -60
        om = rng.choice(omegas)
        fwd = rng.random() < 0.5
        rng3 = (0, n, 1) if fwd else (n - 1, -1, -1)
        Ap, Aj, Ax = A.indptr.astype(I32), A.indices.astype(I32), A.data.copy()
        base = dict(rows=gen.rows_of(A), x=x.tolist(), b=b.tolist(), omega=om, range=rng3)
        omv = np.array([om])
        idx = np.array([rng.randrange(n) for _ in range(rng.randrange(0, n + 2))], dtype=I32)
        kinds = [0, 1, 3, 5, 7]
        if not exactq:
            kinds += [8, 9, 10]
        for kind in kinds:
            xx = x.copy()
            case = dict(base, kind=kind)
            ctx.mark(case)
            if kind == 0:
                amg_core.gauss_seidel(Ap, Aj, Ax, xx, b, *rng3)
                t = (kind, list(rng3), [], [Ap, Aj], [Ax, x, b], xx)
            elif kind == 1:
                amg_core.sor_gauss_seidel(Ap, Aj, Ax, xx, b, *rng3, om)
                t = (kind, list(rng3), [om], [Ap, Aj], [Ax, x, b], xx)
            elif kind == 3:
                temp = vec(rng, n, values)
                t0 = temp.copy()
                amg_core.jacobi(Ap, Aj, Ax, xx, b, temp, 0, n, 1, omv)
                t = (kind, [0, n, 1], [om], [Ap, Aj], [Ax, x, b, t0], xx)
            elif kind == 5:
                amg_core.jacobi_indexed(Ap, Aj, Ax, xx, b, idx, omv)
                t = (kind, [], [om], [Ap, Aj, idx], [Ax, x, b], xx)
                case['indices'] = idx.tolist()
            elif kind == 7:
                r3 = (0, len(idx), 1) if fwd else (len(idx) - 1, -1, -1)
                amg_core.gauss_seidel_indexed(Ap, Aj, Ax, xx, b, idx, *r3)
                t = (kind, list(r3), [], [Ap, Aj, idx], [Ax, x, b], xx)
                case['indices'] = idx.tolist()
            elif kind == 8:
                delta = vec(rng, n, values)
                temp = vec(rng, n, values)
                t0 = temp.copy()
                amg_core.jacobi_ne(Ap, Aj, Ax, xx, b, delta, temp, 0, n, 1, omv)
                t = (kind, [0, n, 1], [om], [Ap, Aj], [Ax, x, b, delta, t0], xx)
            elif kind == 9:
                dinv = vec(rng, n, values)
                amg_core.gauss_seidel_ne(Ap, Aj, Ax, xx, b, *rng3, dinv, om)
                t = (kind, list(rng3), [om], [Ap, Aj], [Ax, x, b, dinv], xx)
            elif kind == 10:
                dinv = vec(rng, n, values)
                z = b.copy()
                amg_core.gauss_seidel_nr(Ap, Aj, Ax, xx, z, *rng3, dinv, om)
                t = (kind, list(rng3), [om], [Ap, Aj], [Ax, x, b, dinv], np.concatenate([xx, z]))
            res.append(t + (case,))
            ctx.case((kind, om, rng3, A.data.tobytes(), A.indices.tobytes(), A.indptr.tobytes(), x.tobytes(),
                      b.tobytes(), idx.tobytes()), not np.array_equal(xx, x), sample=case if kind == 1 else None)
            ctx.count('kernel%d' % kind)
        # BSR kernels on the same matrix
        for bs in [d for d in (1, 2, 3) if n % d == 0]:
            Ab = sp.bsr_array(A, blocksize=(bs, bs))
            Bp, Bj, Bx = Ab.indptr.astype(I32), Ab.indices.astype(I32), np.ravel(Ab.data).copy()
            nb = n // bs
            r3 = (0, nb, 1) if fwd else (nb - 1, -1, -1)
            bidx = np.array([rng.randrange(nb) for _ in range(rng.randrange(0, nb + 2))], dtype=I32)
            dinv = np.array([rng.choice(values) for _ in range(nb * bs * bs)], dtype=float)
            for kind in (2, 4, 6, 11, 12, 13):
                xx = x.copy()
                case = dict(base, kind=kind, blocksize=bs)
                ctx.mark(case)
                if kind == 2:
                    amg_core.bsr_gauss_seidel(Bp, Bj, Bx, xx, b, *r3, bs)
                    t = (kind, list(r3) + [bs], [], [Bp, Bj], [Bx, x, b], xx)
                elif kind == 4:
                    temp = vec(rng, n, values)
                    t0 = temp.copy()
                    amg_core.bsr_jacobi(Bp, Bj, Bx, xx, b, temp, 0, nb, 1, bs, omv)
                    t = (kind, [0, nb, 1, bs], [om], [Bp, Bj], [Bx, x, b, t0], xx)
                elif kind == 6:
                    amg_core.bsr_jacobi_indexed(Bp, Bj, Bx, xx, b, bidx, bs, omv)
                    t = (kind, [bs], [om], [Bp, Bj, bidx], [Bx, x, b], xx)
                elif kind == 11:
                    temp = vec(rng, n, values)
                    t0 = temp.copy()
                    amg_core.block_jacobi(Bp, Bj, Bx, xx, b, dinv, temp, 0, nb, 1, omv, bs)
                    t = (kind, [0, nb, 1, bs], [om], [Bp, Bj], [Bx, x, b, dinv, t0], xx)
                elif kind == 12:
                    amg_core.block_jacobi_indexed(Bp, Bj, Bx, xx, b, dinv, bidx, omv, bs)
                    t = (kind, [bs], [om], [Bp, Bj, bidx], [Bx, x, b, dinv], xx)
                elif kind == 13:
                    amg_core.block_gauss_seidel(Bp, Bj, Bx, xx, b, dinv, *r3, bs)
                    t = (kind, list(r3) + [bs], [], [Bp, Bj], [Bx, x, b, dinv], xx)
                res.append(t + (case,))
                ctx.case((kind, bs, om, r3, Bx.tobytes(), Bj.tobytes(), x.tobytes(), b.tobytes(), bidx.tobytes(),
                          dinv.tobytes()), not np.array_equal(xx, x))
                ctx.count('kernel%d' % kind)
        # the Python driver gauss_seidel / sor on CSR (model written for the repaired F2)
        from pyamg.relaxation import relaxation as R
        for sw_i, sw in enumerate(('forward', 'backward', 'symmetric')):
            its = rng.randrange(0, 4)
            xx = x.copy()
            case = dict(base, kind=14, sweep=sw, iterations=its)
            ctx.mark(case)
            R.gauss_seidel(A, xx, b, iterations=its, sweep=sw, omega=om)
            res.append((14, [n, its, sw_i, 1], [om], [Ap, Aj], [Ax, x, b], xx, case))
            ctx.case((14, sw, its, om, A.data.tobytes(), A.indices.tobytes(), x.tobytes(), b.tobytes()),
                     not np.array_equal(xx, x))
            ctx.count('driver-gs')
    return res


def to_term(t, lit, litl):
    kind, zs, fs, zls, fls, out, _ = t
    return '(%d%%nat, %s, %s, %s, %s, %s)' % (
        kind, cq.zl(zs), cq.lst([lit(v) for v in fs]), cq.lst([cq.zl(a) for a in zls]),
        cq.lst([litl(a) for a in fls]), litl(out))


# ================================== oracle =====================================
def oracle_public(ctx, count):
    """every public relaxation function vs its dense splitting formula"""
    from pyamg.relaxation import relaxation as R
    rng = ctx.sub('oracle')
    vals = [-2, -1, -0.5, 0.5, 1, 2, 0.75, -1.25]
    for it in range(count):
        n = rng.choice([2, 3, 4, 6, 8, 8, 14])
        dt = rng.choice([np.float64, np.float64, np.complex128, np.float32, np.complex64])
        tol = 1e-10 if dt in (np.float64, np.complex128) else 2e-4
        cplx = dt in (np.complex128, np.complex64)
        diag = rng.choice(['all', 'all', 'mixed'])
        A = rand_csr(rng, n, vals, dtype=float, diag=diag)
        if diag == 'all':   # make it comfortably nonsingular so the fixed-point test is meaningful
            A = sp.csr_array(A + sp.diags_array(np.full(n, 6.0)))
        if cplx:
            u = np.exp(1j * np.array([rng.uniform(0, 6) for _ in range(n)]))
            A = sp.csr_array(sp.diags_array(u) @ A @ sp.diags_array(u.conj()))
        if cplx and it % 4 == 2:
            A = sp.csr_array(1j * A)          # a complex matrix whose diagonal is purely imaginary (nonzero all the same)
        A = sp.csr_array(A.astype(dt))
        scaled = it % 7 == 5
        if scaled:
            # the same system in other units (an exact power of two far below the machine epsilon of the type): every
            # splitting formula is invariant, and a nonzero diagonal is a nonzero diagonal
            sc = dt(2.0 ** (-30 if dt in (np.float32, np.complex64) else -60))
            A = sp.csr_array((A.data * sc, A.indices.copy(), A.indptr.copy()), shape=A.shape)
            ctx.count('oracle:scaled-system')
        D = A.toarray()
        unsorted = it % 2 == 1
        if unsorted:
            # same matrix, column indices of every row stored in a shuffled order (valid CSR; nothing in the property
            # presupposes sorted storage)
            A.sort_indices()
            ind, dat = A.indices.copy(), A.data.copy()
            for i in range(n):
                lo, hi = A.indptr[i], A.indptr[i + 1]
                perm = list(range(lo, hi))
                rng.shuffle(perm)
                ind[lo:hi], dat[lo:hi] = A.indices[perm], A.data[perm]
            A = sp.csr_array((dat, ind, A.indptr.copy()), shape=A.shape)
            A.has_sorted_indices = False
            assert np.array_equal(A.toarray(), D)
        x = np.array([rng.uniform(-1, 1) for _ in range(n)]).astype(dt)
        b = np.array([rng.uniform(-1, 1) for _ in range(n)]).astype(dt)
        if cplx:
            x = (x + 1j * np.array([rng.uniform(-1, 1) for _ in range(n)])).astype(dt)
        if scaled:
            b = (b * sc).astype(dt)
        if it % 5 == 3:
            x = np.zeros(n, dtype=dt)        # the zero initial guess (every coarse-level pre-smoothing starts there)
        sweep = rng.choice(['forward', 'backward', 'symmetric'])
        its = rng.choice([0, 1, 1, 2, 3])
        if it % 5 == 3:
            its = 2 + (it // 5) % 2          # zero guess AND several iterations (first-iteration shortcuts must not persist)
        om = rng.choice([1.0, 0.5, 1.5, 4.0 / 3.0, 1.0 + 2.0 ** -17, 1.0 - 2.0 ** -18])     # (weights next to one are weights)
        bs = rng.choice([d for d in (1, 2, 3) if n % d == 0])
        if n in (8, 14) and it % 2 == 0:
            bs = 8 if n == 8 else 7            # large blocks (the block-inverse routine switches method at 7)
        nb = n // bs
        fmt = rng.choice(['csr', 'bsr'])
        Afmt = A if fmt == 'csr' else sp.bsr_array(A, blocksize=(bs, bs))
        Cpts = np.array(sorted(rng.sample(range(nb), max(1, nb // 2))), dtype=I32)
        Fpts = np.array([i for i in range(nb) if i not in set(Cpts.tolist())], dtype=I32)
        base = dict(dense=D.real.tolist() if not cplx else [[[v.real, v.imag] for v in r] for r in D],
                    dtype=np.dtype(dt).name, x=[complex(v) for v in x], b=[complex(v) for v in b],
                    sweep=sweep, iterations=its, omega=om, blocksize=bs, format=fmt, unsorted_indices=unsorted, scaled=bool(scaled))

        def rep(f, n_it):
            y = x.copy()
            for _ in range(n_it):
                y = f(y)
            return y

        def seq_orders(f):
            def g(y):
                for o in orders(sweep, n):
                    y = f(y, o)
                return y
            return g
        Dinv = blocks_dinv(D, bs)

        def pt_rows(blocks):
            # jacobi_indexed / cf_ / fc_jacobi index block rows of a BSR matrix, point rows of a CSR one
            if fmt == 'csr':
                return [int(k) for k in blocks]
            return [k * bs + t for k in blocks for t in range(bs)]
        tests = {
            'gauss_seidel': (lambda y: R.gauss_seidel(Afmt, y, b, iterations=its, sweep=sweep),
                             rep(seq_orders(lambda y, o: ref_gs(D, y, b, o)), its)),
            'sor': (lambda y: R.sor(Afmt, y, b, om, iterations=its, sweep=sweep),
                    rep(seq_orders(lambda y, o: ref_gs(D, y, b, o, om)), its)),
            'gauss_seidel/omega': (lambda y: R.gauss_seidel(Afmt, y, b, iterations=its, sweep=sweep, omega=om),
                                   rep(seq_orders(lambda y, o: ref_gs(D, y, b, o, om)), its)),
            'jacobi': (lambda y: R.jacobi(Afmt, y, b, iterations=its, omega=om),
                       rep(lambda y: ref_jacobi(D, y, b, range(n), om), its)),
            'block_jacobi': (lambda y: R.block_jacobi(Afmt, y, b, blocksize=bs, iterations=its, omega=om),
                             rep(lambda y: ref_block_jacobi(D, y, b, range(nb), om, bs, Dinv), its)),
            'block_gauss_seidel': (lambda y: R.block_gauss_seidel(Afmt, y, b, iterations=its, sweep=sweep, blocksize=bs),
                                   rep(lambda y: _seq(y, [lambda v, o=o: ref_block_gs(D, v, b, o, bs, Dinv)
                                                          for o in orders(sweep, nb)]), its)),
            'jacobi_indexed': (lambda y: R.jacobi_indexed(Afmt, y, b, Cpts, iterations=its, omega=om),
                               rep(lambda y: ref_jacobi(D, y, b, pt_rows(Cpts), om), its)),
            'cf_jacobi': (lambda y: R.cf_jacobi(Afmt, y, b, Cpts, Fpts, iterations=its, f_iterations=2, c_iterations=1, omega=om),
                          rep(lambda y: _seq(y, [lambda v: ref_jacobi(D, v, b, pt_rows(Cpts), om)] +
                                             [lambda v: ref_jacobi(D, v, b, pt_rows(Fpts), om)] * 2), its)),
            'fc_jacobi': (lambda y: R.fc_jacobi(Afmt, y, b, Cpts, Fpts, iterations=its, f_iterations=1, c_iterations=2, omega=om),
                          rep(lambda y: _seq(y, [lambda v: ref_jacobi(D, v, b, pt_rows(Fpts), om)] +
                                             [lambda v: ref_jacobi(D, v, b, pt_rows(Cpts), om)] * 2), its)),
            'cf_block_jacobi': (lambda y: R.cf_block_jacobi(Afmt, y, b, Cpts, Fpts, blocksize=bs, iterations=its, omega=om),
                                rep(lambda y: _seq(y, [lambda v: ref_block_jacobi(D, v, b, Cpts, om, bs, Dinv),
                                                       lambda v: ref_block_jacobi(D, v, b, Fpts, om, bs, Dinv)]), its)),
            'fc_block_jacobi': (lambda y: R.fc_block_jacobi(Afmt, y, b, Cpts, Fpts, blocksize=bs, iterations=its, omega=om),
                                rep(lambda y: _seq(y, [lambda v: ref_block_jacobi(D, v, b, Fpts, om, bs, Dinv),
                                                       lambda v: ref_block_jacobi(D, v, b, Cpts, om, bs, Dinv)]), its)),
            # different numbers of C and F sweeps (the defaults 1 / 1 cannot tell which count belongs to which set)
            'cf_block_jacobi/2F-1C': (lambda y: R.cf_block_jacobi(Afmt, y, b, Cpts, Fpts, blocksize=bs, iterations=its, f_iterations=2, c_iterations=1, omega=om),
                                      rep(lambda y: _seq(y, [lambda v: ref_block_jacobi(D, v, b, Cpts, om, bs, Dinv)] +
                                                         [lambda v: ref_block_jacobi(D, v, b, Fpts, om, bs, Dinv)] * 2), its)),
            'fc_block_jacobi/1F-3C': (lambda y: R.fc_block_jacobi(Afmt, y, b, Cpts, Fpts, blocksize=bs, iterations=its, f_iterations=1, c_iterations=3, omega=om),
                                      rep(lambda y: _seq(y, [lambda v: ref_block_jacobi(D, v, b, Fpts, om, bs, Dinv)] +
                                                         [lambda v: ref_block_jacobi(D, v, b, Cpts, om, bs, Dinv)] * 3), its)),
            'cf_jacobi/1F-3C': (lambda y: R.cf_jacobi(Afmt, y, b, Cpts, Fpts, iterations=its, f_iterations=1, c_iterations=3, omega=om),
                                rep(lambda y: _seq(y, [lambda v: ref_jacobi(D, v, b, pt_rows(Cpts), om)] * 3 +
                                                   [lambda v: ref_jacobi(D, v, b, pt_rows(Fpts), om)]), its)),
            'fc_jacobi/3F-1C': (lambda y: R.fc_jacobi(Afmt, y, b, Cpts, Fpts, iterations=its, f_iterations=3, c_iterations=1, omega=om),
                                rep(lambda y: _seq(y, [lambda v: ref_jacobi(D, v, b, pt_rows(Fpts), om)] * 3 +
                                                   [lambda v: ref_jacobi(D, v, b, pt_rows(Cpts), om)]), its)),
            'jacobi_ne': (lambda y: R.jacobi_ne(Afmt, y, b, iterations=its, omega=om),
                          rep(lambda y: ref_jacobi_ne(D, y, b, om), its)),
            'gauss_seidel_ne': (lambda y: R.gauss_seidel_ne(Afmt, y, b, iterations=its, sweep=sweep, omega=om),
                                rep(seq_orders(lambda y, o: ref_gs_ne(D, y, b, o, om)), its)),
            'gauss_seidel_nr': (lambda y: R.gauss_seidel_nr(Afmt, y, b, iterations=its, sweep=sweep, omega=om),
                                rep(seq_orders(lambda y, o: ref_gs_nr(D, y, b, o, om)), its)),
        }
        if not all(block_ok(D[k * bs:(k + 1) * bs, k * bs:(k + 1) * bs]) for k in range(nb)):
            # a diagonal block with a singular value in the band where "numerically zero" depends on the
            # pseudo-inverse routine's cut-off: the block update is not defined "to rounding" there
            for nm in ('block_jacobi', 'block_gauss_seidel', 'cf_block_jacobi', 'fc_block_jacobi', 'cf_block_jacobi/2F-1C', 'fc_block_jacobi/1F-3C'):
                tests.pop(nm)
            ctx.count('oracle:block-tests-skipped-ill-conditioned-block')
        if fmt == 'csr':
            idx = np.array([rng.randrange(n) for _ in range(rng.randrange(1, n + 2))], dtype=I32)
            tests['gauss_seidel_indexed'] = (
                lambda y: R.gauss_seidel_indexed(A, y, b, idx, iterations=its, sweep=sweep),
                rep(lambda y: _seq(y, [lambda v, o=o: ref_gs(D, v, b, [int(idx[k]) for k in o])
                                       for o in orders(sweep, len(idx))]), its))
            subs = [sorted(set(int(j) for j in A.indices[A.indptr[i]:A.indptr[i + 1]])) for i in range(n)]
            if all(len(sd) > 0 for sd in subs) and all(block_ok(D[np.ix_(sd, sd)]) for sd in subs):   # non-empty, well-posed subdomains
              tests['schwarz'] = (lambda y: R.schwarz(sp.csr_array(A.copy()), y, b, iterations=its, sweep=sweep),
                                  rep(lambda y: _seq(y, [lambda v, o=o: ref_schwarz(D, v, b, o, subs)
                                                         for o in orders(sweep, n)]), its))
              # the same matrix OBJECT with a second subdomain layout of the same sizes (cached parameters must not be reused)
              subs2 = [sorted(set((j + 1) % n for j in sd)) for sd in subs]
              if all(len(a_) == len(b_) for a_, b_ in zip(subs, subs2)) and subs2 != subs and \
                      all(block_ok(D[np.ix_(sd, sd)]) for sd in subs2):
                  sub_flat = np.array([j for sd in subs2 for j in sd], dtype=I32)
                  sub_ptr = np.array([0] + list(np.cumsum([len(sd) for sd in subs2])), dtype=I32)

                  def two_layouts(y):
                      As_ = sp.csr_array(A.copy())
                      R.schwarz(As_, y.copy(), b, iterations=1, sweep=sweep)              # fills the cache on As_
                      R.schwarz(As_, y, b, iterations=its, sweep=sweep, subdomain=sub_flat, subdomain_ptr=sub_ptr)
                  tests['schwarz/second-layout'] = (two_layouts,
                                                    rep(lambda y: _seq(y, [lambda v, o=o: ref_schwarz(D, v, b, o, subs2)
                                                                           for o in orders(sweep, n)]), its))
            coef = [rng.choice([0.1, -0.2, 0.05]) for _ in range(rng.randrange(1, 4))]

            def ref_poly(y):
                r = b - D @ y
                h = coef[0] * r
                for c in coef[1:]:
                    h = c * r + D @ h
                return y + h
            tests['polynomial'] = (lambda y: R.polynomial(A, y, b, coef, iterations=its), rep(ref_poly, its))
        A_master = A.copy()
        for name, (call, want) in tests.items():
            case = dict(base, method=name)
            ctx.mark(case)
            y = x.copy()
            # every call sees the matrix as generated (an earlier call may have sorted its indices in place)
            A = A_master.copy()
            if unsorted:
                A.has_sorted_indices = False
            Afmt = A if fmt == 'csr' else sp.bsr_array(A, blocksize=(bs, bs))
            a_before = (Afmt.toarray().tobytes(), b.tobytes())   # numerical content (in-place index sorting is allowed)
            try:
                call(y)
            except Exception as e:   # noqa
                ctx.fail('relaxation.%s/raises' % name, repr(e), case)
                continue
            ctx.case((name, fmt, np.dtype(dt).name, sweep, its, om, bs, D.tobytes(), x.tobytes(), b.tobytes()),
                     its > 0, sample=case if name == 'sor' and len(ctx.samples) < 3 else None)
            ctx.count('oracle:' + name)
            ctx.count('dtype:' + np.dtype(dt).name)
            if unsorted and its > 0:
                ctx.count('oracle-unsorted-storage:' + name)
            if (Afmt.toarray().tobytes(), b.tobytes()) != a_before:
                ctx.fail('relaxation.%s/inputs-modified' % name, 'A or b changed', case)
            tol_eff = tol
            if name.startswith('schwarz') and fmt == 'csr':
                # the subdomain solves are as accurate as the subdomain matrices are conditioned
                cmax = max([np.linalg.cond(D[np.ix_(sd, sd)].astype(np.complex128)) for sd in subs if len(sd)] + [1.0])
                tol_eff = tol * max(1.0, 10.0 * cmax)
            if not close(y, want, tol_eff):
                cls = ''
                if name in ('sor', 'gauss_seidel/omega') and om != 1.0:
                    cls = '/sweep=symmetric/omega' if sweep == 'symmetric' else ('/bsr/omega' if fmt == 'bsr' else '')
                ctx.fail('relaxation.%s%s' % (name, cls),
                         'result differs from the dense splitting formula: |diff|=%.3g' % np.linalg.norm(y - want), case)
            # zero-diagonal rows untouched by the point methods
            if name in ('gauss_seidel', 'sor', 'jacobi'):
                for i in range(n):
                    if D[i, i] == 0 and y[i] != x[i]:
                        ctx.fail('relaxation.%s/zero-diagonal-row-changed' % name, 'row %d' % i, case)
        # the values of ONE matrix object changed in place between two calls (an assembly loop, a continuation in a parameter): the
        # second call relaxes with the new values (point and normal-equation methods; the block / Schwarz methods cache by design)
        if fmt == 'csr' and its > 0 and it % 3 == 0:
            R2 = R
            for name2, f2, ref2 in (('gauss_seidel_ne', lambda M_, y: R2.gauss_seidel_ne(M_, y, b, iterations=1, sweep='forward', omega=om),
                                     lambda D_, y: ref_gs_ne(D_, y, b, orders('forward', n)[0], om)),
                                    ('gauss_seidel_nr', lambda M_, y: R2.gauss_seidel_nr(M_, y, b, iterations=1, sweep='forward', omega=om),
                                     lambda D_, y: ref_gs_nr(D_, y, b, orders('forward', n)[0], om)),
                                    ('jacobi_ne', lambda M_, y: R2.jacobi_ne(M_, y, b, iterations=1, omega=om), lambda D_, y: ref_jacobi_ne(D_, y, b, om)),
                                    ('jacobi', lambda M_, y: R2.jacobi(M_, y, b, iterations=1, omega=om), lambda D_, y: ref_jacobi(D_, y, b, range(n), om)),
                                    ('gauss_seidel', lambda M_, y: R2.gauss_seidel(M_, y, b, iterations=1, sweep='forward'),
                                     lambda D_, y: ref_gs(D_, y, b, orders('forward', n)[0]))):
                Aobj = A_master.copy()
                y1 = x.copy()
                case2 = dict(base, method=name2, sequence='call, A.data *= 3 in place, call')
                try:
                    f2(Aobj, y1)
                    Aobj.data *= dt(3.0)
                    y2 = x.copy()
                    f2(Aobj, y2)
                except Exception as e:   # noqa
                    ctx.fail('relaxation.%s/raises' % name2, repr(e), case2)
                    continue
                ctx.count('oracle:values-changed-in-place')
                want2 = ref2(3.0 * D, x.copy())
                if not close(y2, want2, tol):
                    ctx.fail('relaxation.%s/stale-after-in-place-change' % name2, 'second call on the same matrix object after A.data *= 3: result differs from the formula for the new values by %.3g'
                             % np.linalg.norm(y2 - want2), case2)
        # exact solution is a fixed point
        if diag == 'all' and np.linalg.cond(D) < 1e6:
            xs = np.linalg.solve(D.astype(np.complex128 if cplx else np.float64), b).astype(dt)
            for name in ('gauss_seidel', 'sor', 'jacobi', 'block_jacobi', 'block_gauss_seidel', 'jacobi_ne',
                         'gauss_seidel_ne', 'gauss_seidel_nr', 'schwarz', 'polynomial'):
                if name not in tests:
                    continue
                if name == 'polynomial' and (its > 1 or dt in (np.float32, np.complex64)):
                    continue     # random coefficients give a divergent iteration: rounding is amplified
                y = xs.copy()
                x_keep = x
                try:
                    tests[name][0](y)
                except Exception:   # noqa
                    continue
                if not close(y, xs, max(tol, 1e-8) * 50):
                    ctx.fail('relaxation.%s/fixed-point' % name, 'exact solution moved by %.3g' % np.linalg.norm(y - xs),
                             dict(base, method=name, fixed_point=True))
                ctx.case((name, 'fixed', D.tobytes(), b.tobytes()), True)


def _seq(y, fs):
    for f in fs:
        y = f(y)
    return y


def run(ctx):
    nq, nf, no = (40, 40, 100) if not ctx.thorough else (250, 250, 400)
    if ctx.search:
        nq, nf, no = 150, 150, 300
    dy = [-2, -1, -0.5, 0.5, 1, 2, 0.25, 4]
    qcases = kernel_cases(ctx, nq, dy, True)
    rf = ctx.sub('fvals')
    fv = [rf.uniform(-2, 2) for _ in range(30)] + [0.1, -0.3, 3.0]
    fcases = kernel_cases(ctx, nf, fv, False)
    ctx.corr_relations = ['amg_core.{gauss_seidel,sor_gauss_seidel,bsr_gauss_seidel,jacobi,bsr_jacobi,jacobi_indexed,'
                          'bsr_jacobi_indexed,gauss_seidel_indexed,jacobi_ne,gauss_seidel_ne,gauss_seidel_nr,block_jacobi,'
                          'block_jacobi_indexed,block_gauss_seidel} == Relax.* (PrimFloat bit-exact; Q exact on dyadic data)',
                          'pyamg.relaxation.gauss_seidel driver (sweep, iterations, omega routing) == Relax.drv_gauss_seidel_csr']
    for nm, cases, lit, litl, typ, chk in (('c09F', qcases + fcases, cq.fl, cq.fll, 'caseT float', 'chkF'),
                                           # (multi-sweep driver runs overflow 53 bits: float instance only)
                                           ('c09Q', [t for t in qcases if t[0] != 14], cq.q, cq.ql, 'caseT Q', 'chkQ')):
        terms = [to_term(t, lit, litl) for t in cases]
        bad, errs = cq.run_cases(nm, HEADER, typ, chk, terms, shard=150)
        for e in errs:
            ctx.disagree('C09 model evaluation (%s)' % nm, None, e, None)
        for i in bad[:20]:
            t = cases[i]
            mo = cq.eval_term(nm + '_bad', HEADER, 'match %s with (k,zs,fs,zls,fls,_) => run_kernel %s k zs fs zls fls end'
                              % (terms[i], 'opsF' if nm == 'c09F' else 'opsQ'))
            ctx.disagree('relaxation kernel kind=%d (%s instance)' % (t[0], nm[-1]), t[6], mo, np.asarray(t[5]).tolist())
    oracle_public(ctx, no)


def search(ctx):
    run(ctx)


def replay(ctx, data):
    ctx.notes.append('replay: re-running the public-function oracle stream')
    oracle_public(ctx, 60)
