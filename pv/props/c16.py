"""C16 -- coarse-grid solvers return the (least-squares) solution in the caller's shape."""
import warnings

import numpy as np
import scipy.sparse as sp

from .. import gen

def _nn(v):
    """NaN counts as 'exceeds every bound' in the oracle comparisons"""
    return np.inf if np.isnan(v) else v


TECHNIQUE = 'Coq proof of the caching state machine (history theorem) and of the splu zero-row/column map + call-sequence oracle'
LEVEL_TEXT = ('Kernel-checked theorems (Props/C16.v): for every factorisation/application pair and every sequence of '
              'right-hand sides the coarse_grid_solver state machine returns, at each call, the solve of that call\'s own '
              'right-hand side (a zero correction for a matrix without nonzeros), creating the factorisation on first use '
              'and reusing it; the answer is independent of the calls made before; the sparse-LU solver with removed zero '
              'rows/columns solves the retained equations (mathcomp, any field).  On every run, call sequences with new '
              'right-hand sides on one solver object are compared with fresh solvers and with dense references for all '
              'direct solvers (pinv, lu, cholesky, splu), Krylov and relaxation names, (name, options) tuples and '
              'callables, SPD / nonsymmetric / singular / 1x1 / empty matrices, real and complex, b of shape (n,) and (n,1).')
LEVEL_NOTE = ('pinv / LU / Cholesky / splu numerics are SciPy\'s (contract: Penrose equations, A x = b), exercised by the '
              'oracle.  The energy-norm statement for relaxation-based coarse solvers is C02\'s smoother lemma plus an '
              'oracle check.')
RULE = ('matrices: SPD, nonsymmetric, singular with identically zero rows and columns, 1x1, all-zero, real/complex, n<=10; '
        'solvers pinv/lu/cholesky/splu/cg/gmres/bicgstab/gauss_seidel/jacobi/... /None/callable/(name,opts); b (n,) and '
        '(n,1); sequences of 3-5 calls on one object vs dense reference and vs a fresh object.  Non-trivial: nonzero matrix.')
RULE += (' Also a complex symmetric (non-Hermitian) matrix, SPD matrices in unsorted CSR storage, and the coarse solvers schwarz / block_jacobi / chebyshev.')
RULE += (' '
         'Also matrices that need pivoting (tiny / zero diagonal entries; direct solvers only), integer right-hand sides and real right-hand sides for complex matrices (direct solvers only).')
THOROUGH_ROUNDS = 5
TRUSTED = ['scipy.linalg pinv / lu_factor / cho_factor, scipy.sparse.linalg.splu']
PARTIAL = ['pinv: the theorem says Penrose equations => minimum-norm least squares; that the applied matrix satisfies the four equations is checked per input (SciPy numerics)', 'exactness of LU/Cholesky/splu: SciPy contracts checked by the oracle']


def mats(rng):
    out = []
    for n in (1, 3, 6, 10):
        A = gen.poisson_like(rng, n)
        out.append(('spd-%d' % n, A, 'spd'))
    A = gen.poisson_like(rng, 6)
    N = A + np.triu(np.ones((6, 6)), 1) * 0.3
    out.append(('nonsym-6', N, 'nonsym'))
    u = np.exp(1j * np.arange(5) * 0.9)
    out.append(('complex-5', np.diag(u) @ gen.poisson_like(rng, 5) @ np.diag(u.conj()), 'spd'))
    # complex SYMMETRIC, not Hermitian (a damped Helmholtz-type operator K - k^2 I + i C): equal to its transpose, not to its adjoint
    K6 = gen.poisson_like(rng, 6)
    out.append(('complex-symmetric-6', K6 - 0.3 * np.eye(6) + 1j * np.diag([0.5, 1.0, 0.25, 2.0, 1.5, 0.75]) + 0.2j * (K6 - np.diag(np.diag(K6))), 'nonsym'))
    # SPD matrices whose CSR rows are stored in a shuffled column order (valid CSR; what a product B @ B.T gives)
    out.append(('spd-8/unsorted', gen.poisson_like(rng, 8), 'spd'))
    out.append(('spd-9/unsorted', gen.poisson_like(rng, 9), 'spd'))
    Z = np.zeros((7, 7))
    idx = [0, 2, 3, 6]
    Z[np.ix_(idx, idx)] = gen.poisson_like(rng, 4)
    out.append(('zero-rows-cols-7', Z, 'singular-zero'))
    # the same matrix with its zero rows / columns STORED as explicit zeros (what a BSR -> CSR conversion or a
    # Galerkin product with padded blocks produces)
    out.append(('zero-rows-cols-7/explicit-zeros', Z.copy(), 'singular-zero'))
    S = gen.poisson_like(rng, 5)
    S = S - np.diag(S.sum(1)) * 0  # keep
    L = np.diag(np.array(S - np.diag(np.diag(S))).sum(1) * -1) + (S - np.diag(np.diag(S)))   # pure graph Laplacian: singular
    out.append(('laplacian-singular-5', L, 'singular'))
    out.append(('all-zero-4', np.zeros((4, 4)), 'zero'))
    # a singular matrix of moderate size: the 1-D Neumann Laplacian on 36 points (its smallest nonzero singular value is far
    # above n*eps, its zero singular value is not above 1e-15 times the largest one in floating point)
    Ln = 2.0 * np.eye(36) - np.eye(36, k=1) - np.eye(36, k=-1)
    Ln[0, 0] = Ln[-1, -1] = 1.0
    out.append(('neumann-laplacian-36', Ln, 'singular'))
    # well-conditioned and nonsingular, but unsolvable without pivoting: zero / tiny diagonal entries
    # (kind 'pivot': direct solvers only -- relaxation and Krylov methods are not defined / not convergent there)
    out.append(('needs-pivoting-3', np.array([[1e-14, 1.0, 0.0], [1.0, 1.0, 1.0], [0.0, 1.0, 3.0]]), 'pivot'))
    out.append(('zero-diagonal-4', np.array([[0.0, 2.0, 0.0, 0.0], [1.0, 0.0, 0.5, 0.0], [0.0, 1.0, 0.0, 3.0], [0.5, 0.0, 1.0, 0.0]]), 'pivot'))
    return out


def run(ctx):
    from pyamg.multilevel import coarse_grid_solver
    rng = ctx.sub('m')
    for mname, Ad, kind in mats(rng):
        n = Ad.shape[0]
        A = sp.csr_array(Ad)
        if mname.endswith('/explicit-zeros'):
            A = sp.csr_array(np.ones_like(Ad))
            A.data[:] = np.asarray(Ad).ravel()          # every entry stored, zeros included
        if mname.endswith('/unsorted'):
            A = gen.unsorted_copy(A, rng)
        cplx = np.iscomplexobj(Ad)
        solvers = ['pinv', 'lu', 'cholesky', 'splu', ('pinv', {}), ('cholesky', {'lower': True}), ('lu', {'check_finite': False}), None,
                   'cg', 'gmres', 'bicgstab', 'gauss_seidel', 'jacobi', 'sor', 'block_gauss_seidel', 'richardson',
                   ('gauss_seidel', {'iterations': 30}), 'callable', 'schwarz', 'block_jacobi', 'chebyshev', ('schwarz', {'iterations': 3})]
        for sv in solvers:
            sname = sv if isinstance(sv, str) or sv is None else sv[0]
            if sname == 'cholesky' and kind not in ('spd',):
                continue
            if sname in ('lu', 'splu', 'cholesky') and kind == 'singular':
                continue
            if sname == 'lu' and kind in ('singular-zero', 'zero'):
                continue
            if sname in ('cg',) and kind not in ('spd',):
                continue
            if sname in ('gmres', 'bicgstab', 'cg', 'gauss_seidel', 'jacobi', 'sor', 'block_gauss_seidel', 'richardson', 'schwarz', 'block_jacobi', 'chebyshev') and kind in ('singular', 'singular-zero'):
                continue
            if kind == 'pivot' and sname not in ('pinv', 'lu', 'splu', 'callable'):
                continue
            if sname == 'sor':
                sv = ('sor', {'omega': 1.2})
            case = dict(matrix=mname, solver=repr(sv), dense=Ad.real.tolist() if not cplx else None)
            ctx.mark(case)
            if mname.endswith('/unsorted'):
                A = gen.unsorted_copy(sp.csr_array(Ad), rng)      # a fresh unsorted copy per solver (a solver may sort its argument)
            try:
                if sv == 'callable':
                    P = np.linalg.pinv(Ad, rcond=Ad.shape[0] * np.finfo(float).eps)
                    cgs = coarse_grid_solver(lambda A_, b_: P @ b_)
                else:
                    cgs = coarse_grid_solver(sv)
            except Exception as e:   # noqa
                ctx.fail('coarse_grid_solver(%s)/raises' % sname, repr(e), case)
                continue
            if sname == 'pinv' and kind != 'zero' and not cplx:
                # hypotheses of C16_pseudo_inverse_minimum_norm_least_squares: the matrix X the solver applies (probed column by
                # column) satisfies the four Penrose equations with A
                try:
                    Xp = np.column_stack([np.ravel(cgs(A, np.eye(n)[:, j])) for j in range(n)])
                    sA = max(np.abs(Ad).max(), 1e-300)
                    sX = max(np.abs(Xp).max(), 1e-300)
                    pen = [np.abs(Ad @ Xp @ Ad - Ad).max() / sA, np.abs(Xp @ Ad @ Xp - Xp).max() / sX,
                           np.abs((Ad @ Xp).T - Ad @ Xp).max(), np.abs((Xp @ Ad).T - Xp @ Ad).max()]
                    ctx.count('oracle:penrose-equations')
                    if max(pen) > 1e-8 * max(1.0, np.linalg.cond(Ad) if kind in ('spd', 'nonsym', 'pivot') else 1.0):
                        ctx.fail('coarse/pinv/penrose-equations', 'A X A = A, X A X = X, (A X)^T = A X, (X A)^T = X A violated by %s' % ['%.2g' % v for v in pen], case)
                except Exception as e:   # noqa
                    ctx.fail('coarse/pinv/raises', repr(e), case)
            seq = []
            for k in range(6):
                b = np.array([rng.uniform(-1, 1) for _ in range(n)])
                if cplx and k != 4:
                    b = b + 1j * np.array([rng.uniform(-1, 1) for _ in range(n)])     # (k = 4: real b for a complex matrix)
                if k == 5:
                    b = np.array([rng.randrange(-3, 4) for _ in range(n)], dtype=np.int64)   # integer right-hand side
                if k % 2 == 1:
                    b = b.reshape(-1, 1)
                seq.append(b)
            is_direct = sname in ('pinv', 'lu', 'cholesky', 'splu', 'callable') or sname is None
            handed_out = []          # (result object, its value when it was returned)
            for k, b in enumerate(seq):
                if not is_direct and (b.dtype.kind == 'i' or (cplx and not np.iscomplexobj(b))):
                    continue          # (the relaxation / Krylov routines insist on one common floating dtype: their contract;
                    #                    MultilevelSolver.solve upcasts b before any coarse solve)
                cs = dict(case, call=k, shape=list(b.shape), b_dtype=str(b.dtype))
                try:
                    with warnings.catch_warnings():
                        warnings.simplefilter('ignore')
                        x = cgs(A, b)
                        fresh = (coarse_grid_solver(sv) if sv != 'callable' else cgs)(A, b)
                except Exception as e:   # noqa
                    ctx.fail('coarse/%s/raises' % sname, repr(e), cs)
                    break
                # answers handed out by earlier calls are the caller's: a later call must not write into them
                for k0, (obj0, val0) in enumerate(handed_out):
                    if obj0.shape == val0.shape and not np.array_equal(np.asarray(obj0), val0, equal_nan=True):
                        ctx.fail('coarse/%s/earlier-answer-overwritten' % sname, 'the array returned by call %d changed during call %d' % (k0, k), cs)
                        handed_out = []
                        break
                if isinstance(x, np.ndarray):
                    handed_out.append((x, np.array(x, copy=True)))
                ctx.case((mname, repr(sv), k), kind != 'zero', sample=dict(cs) if len(ctx.samples) < 3 else None)
                ctx.count('solver:%s' % sname)
                ctx.count('kind:' + kind)
                if np.shape(x) != np.shape(b):
                    ctx.fail('coarse/%s/shape' % sname, 'result %r for b %r' % (np.shape(x), np.shape(b)), cs)
                    continue
                xv, bv = np.ravel(x), np.ravel(b)
                if not np.all(np.isfinite(xv)):
                    ctx.fail('coarse/%s/non-finite' % sname, 'result not finite', cs)
                    continue
                # history independence: the k-th call on a used object equals a fresh object's answer
                if not np.allclose(xv, np.ravel(fresh), rtol=1e-10, atol=1e-12):
                    ctx.fail('coarse/%s/depends-on-history' % sname, 'call %d differs from a fresh solver by %.3g'
                             % (k, np.linalg.norm(xv - np.ravel(fresh))), cs)
                if kind == 'zero' or sname is None:
                    if np.any(xv != 0):
                        ctx.fail('coarse/%s/zero-correction' % sname, 'nonzero correction %s' % xv[:4], cs)
                    continue
                direct = sname in ('pinv', 'lu', 'cholesky', 'splu', 'callable')
                if direct and kind in ('spd', 'nonsym', 'pivot'):
                    ref = np.linalg.solve(Ad, bv)
                    if _nn(np.linalg.norm(xv - ref)) > 1e-9 * np.linalg.cond(Ad) * (1 + np.linalg.norm(ref)):
                        ctx.fail('coarse/%s/wrong-solution' % sname, '|x - A^-1 b| = %.3g' % np.linalg.norm(xv - ref), cs)
                elif sname in ('pinv', 'callable') and kind in ('singular', 'singular-zero'):
                    # minimum-norm least-squares solution (singular values below max(M,N)*eps*s_max count as zero)
                    ref = np.linalg.lstsq(Ad, bv, rcond=None)[0]
                    if _nn(np.linalg.norm(xv - ref)) > 1e-8 * (1 + np.linalg.norm(ref)):
                        ctx.fail('coarse/pinv/not-minimum-norm-least-squares', '|x - A^+ b| = %.3g' % np.linalg.norm(xv - ref), cs)
                elif sname == 'splu' and kind == 'singular-zero':
                    nzr = np.where(np.abs(Ad).sum(1) > 0)[0]
                    zr = np.where(np.abs(Ad).sum(1) == 0)[0]
                    if _nn(np.linalg.norm((Ad @ xv - bv)[nzr])) > 1e-9 * (1 + np.linalg.norm(bv)) or np.any(xv[zr] != 0):
                        ctx.fail('coarse/splu/zero-rows-columns', 'retained equations not solved or removed unknowns nonzero', cs)
                elif not direct and kind == 'spd':
                    # iterative coarse solvers start from zero and must not increase the energy norm of the error
                    ref = np.linalg.solve(Ad, bv)
                    e0 = np.sqrt(abs(np.vdot(ref, Ad @ ref)))
                    e1 = np.sqrt(abs(np.vdot(ref - xv, Ad @ (ref - xv))))
                    if e1 > e0 * (1 + 1e-10):
                        ctx.fail('coarse/%s/energy-increase' % sname, 'energy error %.6g -> %.6g from the zero guess' % (e0, e1), cs)
    # two calls with right-hand sides of ONE shape and type in a row (what every cycle does): the first answer stays the first answer
    Asp = sp.csr_array(gen.poisson_like(rng, 7))
    for sv in ('pinv', 'lu', 'cholesky', 'splu', 'gauss_seidel', 'cg', 'jacobi'):
        for shape_ in ((7,), (7, 1)):
            cgs = coarse_grid_solver(sv)
            b1 = np.array([rng.uniform(-1, 1) for _ in range(7)]).reshape(shape_)
            b2 = np.array([rng.uniform(-1, 1) for _ in range(7)]).reshape(shape_)
            cs = dict(solver=sv, shape=list(shape_), sequence='two calls, same shape and dtype')
            ctx.mark(cs)
            try:
                with warnings.catch_warnings():
                    warnings.simplefilter('ignore')
                    x1 = cgs(Asp, b1)
                    v1 = np.array(x1, copy=True)
                    x2 = cgs(Asp, b2)
            except Exception as e:   # noqa
                ctx.fail('coarse/%s/raises' % sv, repr(e), cs)
                continue
            ctx.case(('same-shape-sequence', sv, shape_), True)
            ctx.count('solver-sequence:' + sv)
            if not np.array_equal(np.asarray(x1), v1):
                ctx.fail('coarse/%s/earlier-answer-overwritten' % sv, 'the array returned by the first call changed during the second call (|change| = %.3g)'
                         % np.linalg.norm(np.ravel(np.asarray(x1) - v1)), cs)
    # single precision: a matrix that is singular to WORKING precision (the Neumann Laplacian in float32 / complex64): the
    # pseudo-inverse solver still returns the minimum-norm least-squares solution (to single accuracy), not the amplified noise of a
    # cut-off chosen for another precision
    Ln32 = 2.0 * np.eye(36) - np.eye(36, k=1) - np.eye(36, k=-1)
    Ln32[0, 0] = Ln32[-1, -1] = 1.0
    # (not integer valued: a matrix with one singular value of relative size 1e-9, so that its single-precision copy is singular
    # only to single precision)
    prs = np.random.RandomState(7)
    Qs, _ = np.linalg.qr(prs.standard_normal((36, 36)))
    Ln32 = (Qs * np.concatenate([np.linspace(1.0, 3.0, 35), [1e-9]])) @ Qs.T
    Ln32 = 0.5 * (Ln32 + Ln32.T)
    for dt_ in (np.float32, np.complex64):
        A32 = sp.csr_array(Ln32.astype(dt_))
        for sv in ('pinv', ('pinv', {})):
            cgs = coarse_grid_solver(sv)
            for k in range(2):
                b32 = np.array([rng.uniform(-1, 1) for _ in range(36)]).astype(dt_)
                cs = dict(matrix='neumann-laplacian-36', dtype=np.dtype(dt_).name, solver=repr(sv), call=k)
                ctx.mark(cs)
                try:
                    with warnings.catch_warnings():
                        warnings.simplefilter('ignore')
                        x32 = np.ravel(cgs(A32, b32))
                except Exception as e:   # noqa
                    ctx.fail('coarse/pinv/raises', repr(e), cs)
                    continue
                ctx.case(('pinv-precision', np.dtype(dt_).name, repr(sv), k), True)
                ctx.count('solver:pinv/' + np.dtype(dt_).name)
                ref = np.linalg.lstsq(Ln32, b32.astype(np.complex128 if dt_ == np.complex64 else np.float64), rcond=1e-5)[0]
                tol_ = 2e-2 if dt_ != np.float64 else 1e-8
                if not np.all(np.isfinite(x32)) or _nn(np.linalg.norm(x32 - ref)) > tol_ * (1 + np.linalg.norm(ref)):
                    ctx.fail('coarse/pinv/not-minimum-norm-least-squares/single-precision', '%s matrix: |x - A^+ b| = %.3g, |A^+ b| = %.3g, |x| = %.3g'
                             % (np.dtype(dt_).name, np.linalg.norm(x32 - ref), np.linalg.norm(ref), np.linalg.norm(x32)), cs)
    ctx.corr_relations = ['k-th call on a used coarse_grid_solver object == first call on a fresh object (history theorem C16_history_independent)']


def search(ctx):
    run(ctx)


def replay(ctx, data):
    run(ctx)
