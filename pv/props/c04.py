"""C04 -- hierarchy structure: Galerkin coarse operators and coarsening limits."""
import numpy as np
import scipy.sparse as sp

from .. import coqrun as cq
from .. import hier

def _nn(v):
    """NaN counts as 'exceeds every bound' in the oracle comparisons"""
    return np.inf if np.isnan(v) else v


TECHNIQUE = 'Coq proof of the coarsening-loop specification + level-count prediction and structural oracle on built hierarchies'
LEVEL_TEXT = ('Kernel-checked theorems (Props/C04.v) about the Gallina model of the constructors\' coarsening loop, for '
              'every level-extension behaviour, max_levels and max_coarse: the loop terminates, the finest level is the '
              'input, 1 <= #levels <= max_levels, dimensions chain, coarsening stops only because of max_levels, '
              'max_coarse or a stall, and sizes strictly decrease whenever the extension shrinks (classical/AIR, where '
              'the stall test forces 0 < #C < n); the strict-decrease clause is refuted for the aggregation-based loops '
              '(no stall exit).  The model, fed the level sizes observed on an unconstrained build, must predict the '
              'level sizes of every (max_levels, max_coarse) rebuild of all five constructors; on every built hierarchy '
              'an oracle checks shapes, R vs P^H/P^T per symmetry flag, A_c == R A P recomputed, finest values == the '
              'user\'s matrix, user matrix bytes untouched.')
LEVEL_NOTE = ('"A_c equals R*A*P" and "R is P^H" are statements about SciPy sparse products assembled by the constructors: '
              'decided by the oracle on every built hierarchy, not by a theorem.  Known finding F6: aggregation-based '
              'constructors repeat a non-shrinking level.')
RULE = ('constructors classical / AIR / SA (+energy smoothing, symmetry flags hermitian/symmetric/nonsymmetric) / '
        'root-node / pairwise on Poisson, anisotropic, graph Laplacian, elasticity BSR, complex, nonsymmetric inputs in '
        'CSR/BSR/CSC/COO/dense; one unconstrained build then every (max_levels in 1..6, max_coarse in a grid) rebuild: '
        'level sizes == Hierarchy.build prediction; structural oracle per hierarchy.  Non-trivial: >= 2 levels.')
RULE += (' '
         'Also: inputs rescaled by 2^-60 / 2^60 (Galerkin tolerance relative to |R||A||P|), CLJP / PMISc / RS with a strength threshold that leaves no strong connection (all-C / all-F stalls), diagonal input, MultilevelSolver built from levels without R (complex, real, BSR).')
TRUSTED = ['SciPy sparse products and format conversions', 'determinism of the constructors under a fixed NumPy seed']
PARTIAL = ['Galerkin product, R = P^H, finest values: oracle only', 'strict decrease refuted for SA / root-node / pairwise (F6)']
REFUTED = ['C04_sizes_decrease_refuted']
HEADER = ('From Coq Require Import List Arith Bool.\nImport ListNotations.\n'
          'Require Import PV.Base.Ops PV.Model.Hierarchy PV.Model.HierarchyRun.\n')


def nl(xs):
    return '[' + '; '.join('%d%%nat' % int(x) for x in xs) + ']'


def sizes_of(ml):
    out = []
    for L in ml.levels:
        A = L.A
        bs = A.blocksize[0] if sp.issparse(A) and A.format == 'bsr' else 1
        out.append(int(A.shape[0] // bs))
    return out


def constructors():
    import pyamg
    return [
        ('classical', lambda A, **kw: pyamg.ruge_stuben_solver(sp.csr_array(A), **kw), True, 'transpose'),
        ('classical-pmis', lambda A, **kw: pyamg.ruge_stuben_solver(sp.csr_array(A), CF='PMIS', **kw), True, 'transpose'),
        ('classical-cljp', lambda A, **kw: pyamg.ruge_stuben_solver(sp.csr_array(A), CF='CLJP', **kw), True, 'transpose'),
        # no strength measure: the level matrix itself plays the role of the strength matrix
        ('classical-nostrength', lambda A, **kw: pyamg.ruge_stuben_solver(sp.csr_array(A), strength=None, **kw), True, 'transpose'),
        ('classical-nostrength-direct', lambda A, **kw: pyamg.ruge_stuben_solver(sp.csr_array(A), strength=None, interpolation='direct', **kw), True, 'transpose'),
        # a strength threshold under which (almost) nothing is strongly connected: CLJP / PMISc then make every point a
        # C point, RS every point an F point -- both are "coarsening stalls"
        ('classical-cljp-nostrong', lambda A, **kw: pyamg.ruge_stuben_solver(
            sp.csr_array(A), CF='CLJP', strength=('symmetric', {'theta': 0.9}), **kw), True, 'transpose'),
        ('classical-pmisc-nostrong', lambda A, **kw: pyamg.ruge_stuben_solver(
            sp.csr_array(A), CF='PMISc', strength=('symmetric', {'theta': 0.9}), **kw), True, 'transpose'),
        ('classical-rs-nostrong', lambda A, **kw: pyamg.ruge_stuben_solver(
            sp.csr_array(A), CF='RS', strength=('symmetric', {'theta': 0.9}), **kw), True, 'transpose'),
        ('air', lambda A, **kw: pyamg.air_solver(sp.csr_array(A), **kw), True, None),
        # small entries filtered: A_1 = R * filtered(A_0) * P while level 0 keeps the user's values
        ('air-filter', lambda A, **kw: pyamg.air_solver(sp.csr_array(A), filter_operator=(True, 0.2), **kw), True, None),
        ('sa', lambda A, **kw: pyamg.smoothed_aggregation_solver(A, **kw), False, 'hermitian'),
        ('sa-symmetric', lambda A, **kw: pyamg.smoothed_aggregation_solver(A, symmetry='symmetric', **kw), False, 'transpose'),
        ('sa-nonsymmetric', lambda A, **kw: pyamg.smoothed_aggregation_solver(A, symmetry='nonsymmetric', **kw), False, None),
        ('sa-energy', lambda A, **kw: pyamg.smoothed_aggregation_solver(A, smooth=('energy', {'maxiter': 2}), **kw), False, 'hermitian'),
        # candidate count differs from the block size of the input: the "unknowns" compared with max_coarse
        # are block rows of the level at hand (blocksize 1 or 2 on level 0, 2 below)
        ('sa-2cands', lambda A, **kw: pyamg.smoothed_aggregation_solver(
            A, B=np.vstack([np.ones(A.shape[0]), np.arange(A.shape[0]) % 3 - 1.0]).T.copy(), **kw), False, 'hermitian'),
        ('sa-naive', lambda A, **kw: pyamg.smoothed_aggregation_solver(A, aggregate='naive', **kw), False, 'hermitian'),
        ('rootnode', lambda A, **kw: pyamg.rootnode_solver(A, **kw), False, 'hermitian'),
        # per-level option lists LONGER than max_levels - 1: the surplus entries are unused, the level cap stands
        ('sa-strength-list', lambda A, **kw: pyamg.smoothed_aggregation_solver(
            A, strength=[('symmetric', {'theta': 0.0}), 'symmetric', ('symmetric', {'theta': 0.0}), 'symmetric'], **kw), False, 'hermitian'),
        ('rootnode-strength-list', lambda A, **kw: pyamg.rootnode_solver(
            A, strength=['symmetric', ('symmetric', {'theta': 0.0}), 'symmetric', 'symmetric', 'symmetric'], **kw), False, 'hermitian'),
        ('pairwise-aggregate-list', lambda A, **kw: pyamg.pairwise_solver(
            sp.csr_array(A), aggregate=[('pairwise', {'theta': 0.25, 'norm': 'min', 'matchings': 2}) for _ in range(4)], **kw), False, 'hermitian'),
        # prolongation smoothing with the other Jacobi weightings (no filtering): the level matrix must come out untouched
        ('sa-jacobi-local', lambda A, **kw: pyamg.smoothed_aggregation_solver(A, smooth=('jacobi', {'weighting': 'local'}), **kw), False, 'hermitian'),
        ('sa-jacobi-block', lambda A, **kw: pyamg.smoothed_aggregation_solver(A, smooth=('jacobi', {'weighting': 'block'}), **kw), False, 'hermitian'),
        ('sa-richardson', lambda A, **kw: pyamg.smoothed_aggregation_solver(A, smooth=('richardson', {'omega': 1.0}), **kw), False, 'hermitian'),
        ('pairwise', lambda A, **kw: pyamg.pairwise_solver(sp.csr_array(A), **kw), False, 'hermitian'),
    ]


def structure_oracle(ctx, name, ml, Auser, Acopy, rkind, max_levels, case, filt=None):
    lv = ml.levels
    if len(lv) > max(1, max_levels):
        ctx.fail('levels-exceed-max_levels/' + name, '%d levels with max_levels=%d' % (len(lv), max_levels), case)
    A0 = hier.dense_of(lv[0].A)
    if A0.shape != Acopy.shape or _nn(np.abs(A0 - Acopy).max()) > 0:
        ctx.fail('finest-not-user-matrix/' + name, 'level-0 values differ from the input matrix', case)
    if _nn(np.abs(hier.dense_of(Auser) - Acopy).max()) > 0:
        ctx.fail('user-matrix-modified/' + name, 'the caller\'s matrix changed during setup', case)
    sz = sizes_of(ml)
    mc = case.get('max_coarse')
    if mc is not None and name == 'adaptive' and len(lv) < max(1, max_levels) and \
            lv[-1].A.shape[0] / float(max(1, case.get('num_candidates', 1))) > mc:
        # adaptive SA may only stop above max_coarse for max_levels (it counts nodes on some paths and degrees of
        # freedom on others: only a coarsest level above the limit in BOTH units is reported)
        ctx.fail('stopped-above-max_coarse/adaptive', '%d levels < max_levels=%d but the coarsest level has %d > max_coarse=%d unknowns (sizes %s)'
                 % (len(lv), max_levels, lv[-1].A.shape[0], mc, [L.A.shape[0] for L in lv]), case)
    if mc is not None and name != 'adaptive':     # (adaptive SA re-derives its own limits for the final build)
        # coarsening continues exactly while the current level has more than max_coarse unknowns
        for l in range(len(lv) - 1):
            if sz[l] <= mc:
                ctx.fail('coarsened-a-level-within-max_coarse/' + name.split('-')[0],
                         'level %d has %d <= max_coarse=%d unknowns but was coarsened: sizes %s' % (l, sz[l], mc, sz), case)
                break
        if len(lv) < max(1, max_levels) and sz[-1] > mc and name.split('-')[0] in ('sa', 'rootnode', 'pairwise'):
            # (the aggregation-based constructors have no stall exit: they can only stop for max_levels / max_coarse)
            ctx.fail('stopped-above-max_coarse/' + name.split('-')[0],
                     '%d levels < max_levels=%d but the coarsest level has %d > max_coarse=%d unknowns' % (len(lv), max_levels, sz[-1], mc), case)
    for l in range(len(lv) - 1):
        A, P, R, Ac = lv[l].A, lv[l].P, lv[l].R, lv[l + 1].A
        if P.shape != (A.shape[0], Ac.shape[0]) or R.shape != (Ac.shape[0], A.shape[0]) or Ac.shape[0] != Ac.shape[1]:
            ctx.fail('dimensions/' + name, 'level %d: A %r P %r R %r Ac %r' % (l, A.shape, P.shape, R.shape, Ac.shape), case)
            return
        Pd, Rd, Ad, Acd = hier.dense_of(P), hier.dense_of(R), hier.dense_of(A), hier.dense_of(Ac)
        if filt is not None and l == 0:
            # the finest level stores the user's matrix; the product is taken with its filtered copy
            from pyamg.util.utils import filter_matrix_rows
            Af = sp.csr_array(Acopy.astype(np.result_type(Acopy.dtype, np.float64)))
            filter_matrix_rows(Af, filt[1], diagonal=True, lump=filt[0])
            Ad = Af.toarray()
        rap = Rd @ Ad @ Pd
        alt = None
        if filt is not None:
            # a coarse level on which a further extension was attempted is itself stored filtered (in place, by
            # design): always for intermediate levels, possibly for the last one (extension stopped as "bottom")
            from pyamg.util.utils import filter_matrix_rows
            Rf = sp.csr_array(rap.copy())
            filter_matrix_rows(Rf, filt[1], diagonal=True, lump=filt[0])
            if l + 1 < len(lv) - 1:
                rap = Rf.toarray()
            else:
                alt = Rf.toarray()
        # rounding of the triple product scales with |R| |A| |P| (no absolute term: the rule is scale invariant)
        # (in the precision of the level: single-precision inputs give single-precision products)
        prec = max(1e-11, 200 * float(np.finfo(Ac.dtype).eps)) if np.issubdtype(Ac.dtype, np.inexact) else 1e-11
        gtol = prec * np.linalg.norm(Rd, 2) * np.linalg.norm(Ad, 2) * np.linalg.norm(Pd, 2) + 1e-300
        if _nn(np.linalg.norm(Acd - rap)) > gtol and (alt is None or _nn(np.linalg.norm(Acd - alt)) > gtol):
            ctx.fail('not-galerkin/' + name, 'level %d: |A_c - R A P| = %.3g' % (l + 1, np.linalg.norm(Acd - rap)), case)
        if rkind == 'hermitian' and not np.array_equal(Rd, Pd.conj().T):
            ctx.fail('R-not-PH/' + name, 'level %d' % l, case)
        if rkind == 'transpose' and not np.array_equal(Rd, Pd.T):
            ctx.fail('R-not-PT/' + name, 'level %d' % l, case)
        if not sz[l + 1] < sz[l]:
            ctx.fail('sizes-not-decreasing/' + name.split('-')[0], 'level sizes %s' % sz, case)
            break
    oc = sum(L.A.nnz for L in lv) / float(lv[0].A.nnz) if lv[0].A.nnz else None
    if oc is not None and abs(ml.operator_complexity() - oc) > 1e-12 * oc:
        ctx.fail('operator_complexity/' + name, '%r vs %r' % (ml.operator_complexity(), oc), case)
    gc = sum(L.A.shape[0] for L in lv) / float(lv[0].A.shape[0])
    if abs(ml.grid_complexity() - gc) > 1e-12 * gc:
        ctx.fail('grid_complexity/' + name, '%r vs %r' % (ml.grid_complexity(), gc), case)


def inputs(ctx):
    rng = ctx.sub('in')
    mats = hier.hpd_matrices(rng)
    out = [(n, A, 'spd') for n, A in mats]
    out.append(('upwind-6x6', hier.nonsym_matrix(6), 'nonsym'))
    from pyamg.gallery import poisson
    P = sp.csr_array(poisson((6, 6), format='csr'))
    out.append(('poisson-6x6-csc', sp.csc_array(P), 'spd'))
    out.append(('poisson-6x6-coo', sp.coo_array(P), 'spd'))
    out.append(('poisson-6x6-bsr2', sp.bsr_array(P, blocksize=(2, 2)), 'spd'))
    out.append(('diag-12', sp.csr_array(sp.diags_array(np.arange(1.0, 13.0))), 'spd'))
    # the same problem in other units: every entry scaled by an exact power of two far below / above one
    base = dict((n, A) for n, A in mats)['poisson2d-6x5']
    out.append(('poisson2d-6x5*2^-60', sp.csr_array(base * 2.0 ** -60), 'spd'))
    out.append(('poisson2d-6x5*2^60', sp.csr_array(base * 2.0 ** 60), 'spd'))
    # integer and single-precision inputs: the finest level keeps every digit of the user's entries (entries beyond 2^24 do not
    # fit a float32 mantissa), int32 / int64 / float32 data
    big = sp.csr_array(base * 20000001.0)
    out.append(('poisson2d-6x5*int32', sp.csr_array(big.astype(np.int32)), 'spd'))
    out.append(('poisson2d-6x5*int64', sp.csr_array(big.astype(np.int64)), 'spd'))
    out.append(('poisson2d-6x5*float32', sp.csr_array(base.astype(np.float32) * np.float32(0.1)), 'spd'))
    return out


def run(ctx):
    cases, meta = [], []
    cons = constructors()
    ins = inputs(ctx)
    combos = []
    for c in cons:
        for i in ins:
            if c[0] in ('air', 'air-filter', 'sa-nonsymmetric') and i[2] != 'nonsym' and not ctx.thorough:
                if i[0] not in ('poisson2d-6x5',):
                    continue
            if i[2] == 'nonsym' and c[0] not in ('air', 'air-filter', 'sa-nonsymmetric', 'classical'):
                continue
            combos.append((c, i))
    # corpus: F6 witnesses always run
    forced = [(c, i) for c, i in combos if (c[0] == 'sa-naive' and i[0] == 'diag-12') or
              (c[0] in ('sa', 'rootnode', 'pairwise', 'classical', 'air') and i[0] == 'poisson2d-6x5') or
              (c[0] in ('sa', 'rootnode', 'pairwise', 'classical', 'sa-energy') and i[0].startswith('poisson2d-6x5*')) or
              (c[0].endswith('-nostrong') and i[0] in ('poisson2d-6x5', 'diag-12')) or
              (c[0] == 'classical-cljp' and i[0] in ('poisson2d-6x5', 'diag-12')) or
              (c[0].startswith('classical-nostrength') and i[0] in ('poisson2d-6x5', 'aniso-6x6')) or
              (c[0] == 'air-filter' and i[2] == 'nonsym') or
              (c[0] in ('sa', 'sa-2cands') and i[0] in ('poisson-6x6-bsr2', 'poisson2d-6x5')) or
              (c[0] in ('sa-strength-list', 'rootnode-strength-list', 'pairwise-aggregate-list', 'sa-jacobi-local', 'sa-jacobi-block',
                        'sa-richardson') and i[0] in ('poisson2d-6x5', 'aniso-6x6'))]
    rng = ctx.sub('pick')
    rest = [x for x in combos if x not in forced]
    if not (ctx.thorough or ctx.search):
        rng.shuffle(rest)
        rest = rest[:22]
    for (cname, f, stall_exit, rkind), (iname, A, kind) in forced + rest:
        Acopy = hier.dense_of(A).copy()
        base = dict(constructor=cname, input=iname)
        ctx.mark(base)
        np.random.seed(ctx.seed)
        try:
            ml_long = f(A, max_levels=12, max_coarse=0)
        except Exception as e:   # noqa
            ctx.count('unsupported')
            continue
        long_sizes = sizes_of(ml_long)
        stalled = len(long_sizes) < 12 and long_sizes[-1] > 0
        structure_oracle(ctx, cname, ml_long, A, Acopy, rkind, 12, dict(base, max_levels=12, max_coarse=0),
                         filt=(True, 0.2) if cname == 'air-filter' else None)
        grid_mc = sorted({0, 1, 2, 3, 5, 8, long_sizes[-1], max(long_sizes[-1] - 1, 0)} | {s for s in long_sizes} | {s - 1 for s in long_sizes if s > 0})
        for ml_ in range(1, 7):
            for mc in grid_mc:
                if not (ctx.thorough or ctx.search) and rng.random() < 0.55:
                    continue
                case = dict(base, max_levels=ml_, max_coarse=mc)
                ctx.mark(case)
                np.random.seed(ctx.seed)
                try:
                    ml = f(A, max_levels=ml_, max_coarse=mc)
                except Exception as e:   # noqa
                    ctx.fail('constructor-raises/' + cname, repr(e), case)
                    continue
                sz = sizes_of(ml)
                cases.append('(%s, %s, %d%%nat, %d%%nat, %s)' % (nl(long_sizes), cq.b(stalled), ml_, mc, nl(sz)))
                meta.append((dict(case, long_sizes=long_sizes), sz))
                ctx.case((cname, iname, ml_, mc), len(sz) >= 2, sample=dict(case, sizes=sz) if len(ctx.samples) < 4 and len(sz) > 2 else None)
                ctx.count('constructor:' + cname)
                ctx.count('levels=%d' % len(sz))
                if ml_ <= 3 or rng.random() < 0.3:
                    structure_oracle(ctx, cname, ml, A, Acopy, rkind, ml_, case, filt=(True, 0.2) if cname == 'air-filter' else None)
    # adaptive smoothed aggregation: its setup re-derives strength and aggregation inside several nested
    # constructor calls, so only the structural oracle applies (no level-size prediction)
    from pyamg.aggregation import adaptive_sa_solver
    rng2 = ctx.sub('adaptive')
    from pyamg.gallery import poisson as _poisson
    for iname, A, kind in ins + [('poisson2d-10x10', sp.csr_array(_poisson((10, 10), format='csr')), 'spd')]:
        if kind != 'spd' or not sp.issparse(A) or A.format not in ('csr', 'bsr') or A.shape[0] < 12 or iname == 'diag-12' or A.dtype == np.float32:
            continue          # (a diagonal matrix has no connections: the adaptive candidate is rejected as zero)
        Acopy = hier.dense_of(A).copy()
        for ml_ in (1, 2, 3, 5):
            for mc in (2, 4, 10):
                for nc, imp in ((1, 0), (2, 0), (1, 1), (2, 1)):
                    if not (ctx.thorough or ctx.search) and rng2.random() < 0.6:
                        continue
                    case = dict(constructor='adaptive', input=iname, max_levels=ml_, max_coarse=mc, num_candidates=nc,
                                improvement_iters=imp)
                    ctx.mark(case)
                    np.random.seed(ctx.seed)
                    try:
                        ml = adaptive_sa_solver(A, num_candidates=nc, candidate_iters=2, improvement_iters=imp,
                                                max_levels=ml_, max_coarse=mc)[0]
                    except ValueError:
                        # the adaptive candidate degenerated (all zero / NaN on a tiny coarse level): the constructor
                        # refuses with an error; no hierarchy is returned, so C04 claims nothing (DESIGN 8.4, O3)
                        ctx.count('adaptive:degenerate-candidate-ValueError')
                        continue
                    except Exception as e:   # noqa
                        ctx.fail('constructor-raises/adaptive/max_levels=%d' % ml_, repr(e)[:200], case)
                        continue
                    ctx.case(('adaptive', iname, ml_, mc, nc, imp), len(ml.levels) >= 2)
                    ctx.count('constructor:adaptive')
                    structure_oracle(ctx, 'adaptive', ml, A, Acopy, 'hermitian', ml_, case)
    # the MultilevelSolver constructor itself: levels handed over WITHOUT a restriction get R = P^H
    import pyamg
    from pyamg.multilevel import MultilevelSolver
    for iname, A, kind in ins:
        if kind != 'spd' or iname not in ('complex-rot-5x4', 'poisson2d-6x5', 'elasticity-3x3'):
            continue
        np.random.seed(ctx.seed)
        src = pyamg.smoothed_aggregation_solver(A, max_coarse=3, max_levels=4)
        levels = []
        for L in src.levels:
            N = MultilevelSolver.Level()
            N.A = L.A.copy()
            if hasattr(L, 'P'):
                N.P = L.P.copy()
            levels.append(N)
        case = dict(constructor='MultilevelSolver(levels without R)', input=iname)
        ctx.mark(case)
        try:
            ml = MultilevelSolver(levels, coarse_solver='pinv')
        except Exception as e:   # noqa
            ctx.fail('constructor-raises/MultilevelSolver', repr(e), case)
            continue
        ctx.case(('MultilevelSolver-no-R', iname), len(ml.levels) >= 2)
        ctx.count('constructor:MultilevelSolver')
        structure_oracle(ctx, 'MultilevelSolver', ml, A, hier.dense_of(A).copy(), 'hermitian', len(levels), case)
    # the symmetry argument of every call counts, also on a matrix object an earlier call has already seen
    for iname, A, kind in ins:
        if kind != 'spd' or iname not in ('complex-rot-5x4', 'poisson2d-6x5'):
            continue
        for first, second, rk in (('symmetric', 'hermitian', 'hermitian'), ('hermitian', 'symmetric', 'transpose'),
                                  ('nonsymmetric', 'symmetric', 'transpose'), ('nonsymmetric', 'hermitian', 'hermitian')):
            for cname_, ctor in (('sa', pyamg.smoothed_aggregation_solver), ('rootnode', pyamg.rootnode_solver)):
                Aobj = A.copy()
                case = dict(constructor=cname_, input=iname, symmetry_sequence=[first, second])
                ctx.mark(case)
                try:
                    np.random.seed(ctx.seed)
                    ctor(Aobj, symmetry=first, max_coarse=3)
                    np.random.seed(ctx.seed)
                    ml = ctor(Aobj, symmetry=second, max_coarse=3)
                except Exception as e:   # noqa
                    ctx.fail('constructor-raises/%s/symmetry-sequence' % cname_, repr(e), case)
                    continue
                ctx.case(('symmetry-sequence', cname_, iname, first, second), len(ml.levels) >= 2)
                ctx.count('constructor:symmetry-sequence')
                structure_oracle(ctx, cname_ + '-symseq', ml, Aobj, hier.dense_of(A).copy(), rk, 10, case)
    ctx.corr_relations = ['level sizes of constructor(A, max_levels, max_coarse) == Hierarchy.build on the sizes observed in an unconstrained build (exact)']
    bad, errs = cq.run_cases('c04', HEADER, 'caseT', 'chk', cases, shard=1000)
    for e in errs:
        ctx.disagree('C04 model evaluation', None, e, None)
    for i in bad[:20]:
        case, sz = meta[i]
        ctx.disagree('coarsening loop (level sizes)', case, 'Hierarchy.build predicts other sizes', sz)


def search(ctx):
    run(ctx)


def replay(ctx, data):
    ctx.search = True
    run(ctx)
