"""C12 -- aggregation routines return valid partitions of the strength graph."""
import numpy as np
import scipy.sparse as sp
import scipy.sparse.csgraph as csg

from .. import coqrun as cq
from .. import gen

TECHNIQUE = 'Coq proofs (naive and standard aggregation unbounded; pairwise and finer statements all graphs <= 4 nodes) + exhaustive small-graph kernel/model correspondence'
LEVEL_TEXT = ('Kernel-checked theorems (Props/C12.v).  Unbounded (invariant proof, any number of vertices, any graph with '
              'column indices in range): naive aggregation assigns every vertex to exactly one aggregate 1..c, every aggregate '
              'contains its root (no empty aggregate, distinct roots) and every member is the root or a neighbour of it; '
              'standard aggregation on every SYMMETRIC pattern returns ids in [-1, c), -1 exactly for the vertices without '
              'off-diagonal connection, every aggregate containing its root, every member within distance 2 of the root '
              'through members of the same aggregate, and its third pass opens no aggregate.  '
              'One pairwise matching, on every graph with valid column indices and every weight vector: the kernel returns (its '
              'multimap holds exactly the unaggregated nodes, each once, and shrinks every round), every node gets an id in 1..c and every '
              'aggregate has one or two members (C12_pairwise_matching_pairs); m matchings composed as the Python driver composes them '
              '(Aggregate.compose, tied to T = T @ T_temp by correspondence) give aggregates of at most 2^m nodes '
              '(C12_pairwise_at_most_two_to_the_matchings).  '
              'Bounded, decided by vm_compute over the complete enumeration with the '
              'bound in each statement: for all symmetric graphs on <= 4 vertices (with and without stored diagonal) '
              'the models of standard, naive and pairwise aggregation return a partition: ids in range, no empty '
              'aggregate, distinct roots each lying in the aggregate it names; standard aggregation leaves unaggregated '
              'exactly the vertices without off-diagonal connection, its aggregates are connected, and its third pass '
              'never opens an aggregate; naive aggregation assigns every vertex; pairwise aggregates have at most 2 '
              'vertices (all weight vectors over {1,2}).  The models (including the std::multimap of the pairwise '
              'kernel) agree exactly with the rebuilt working-tree kernels on every symmetric graph on <= 5 vertices '
              '(6 thorough) and every directed pattern on <= 3 vertices; a partition oracle decides the property on the '
              'public routines incl. multi-pass pairwise (<= 2^matchings) and Lloyd aggregation.')
LEVEL_NOTE = ('Naive and standard aggregation have unbounded theorems (any size; standard: symmetric pattern); one pairwise matching '
              '(ids, sizes 1-2, termination) and the 2^m bound for composed matchings are unbounded too, pairwise roots (Cpts) bounded '
              '(<= 4 vertices) + oracle; the tie to the code is the exhaustive <= 5/6-vertex correspondence and the composition '
              'correspondence.  Lloyd / balanced Lloyd: oracle only.')
RULE = ('complete enumeration of symmetric graphs on 1..5 (6 thorough) vertices with/without diagonal and of directed '
        'patterns on <= 3 vertices: standard, naive, pairwise (tied integer weights) kernels == Gallina model exactly; '
        'public standard/naive/pairwise/lloyd aggregation on random symmetric strength graphs (stars, cliques, isolated '
        'vertices, components) and nonsymmetric M-matrices -> partition oracle.  Non-trivial: graph has an edge.')
TRUSTED = ['scipy.sparse.csgraph (oracle side only)', 'SciPy coo->csr conversion in the Python wrappers']
PARTIAL = ['pairwise aggregation: ids, sizes <= 2 per matching and <= 2^m after m matchings unbounded; roots (Cpts) bounded to <= 4 vertices + oracle', 'Lloyd aggregation: oracle only']
HEADER = ('From Coq Require Import ZArith List.\nImport ListNotations.\n'
          'Require Import PV.Base.Ops PV.Model.GraphRun PV.Model.GraphRun2.\nOpen Scope Z_scope.\n')
I32 = np.int32


def partition_oracle(ctx, name, n, AggOp, Cpts, case, every=False, maxsize=None):
    AggOp = sp.csr_array(AggOp)
    if AggOp.shape[0] != n:
        ctx.fail(name + '/shape', 'AggOp shape %r' % (AggOp.shape,), case)
        return None
    if AggOp.nnz and not np.all(AggOp.data == 1):
        ctx.fail(name + '/not-01', 'entries %s' % np.unique(AggOp.data), case)
    per_row = np.diff(AggOp.indptr)
    if np.any(per_row > 1):
        ctx.fail(name + '/node-in-two-aggregates', 'row counts %s' % per_row.tolist(), case)
        return None
    agg = np.full(n, -1)
    for i in range(n):
        if per_row[i]:
            agg[i] = AggOp.indices[AggOp.indptr[i]]
    nagg = AggOp.shape[1]
    sizes = np.bincount(agg[agg >= 0], minlength=nagg) if nagg else np.array([])
    if AggOp.nnz and np.any(sizes == 0):
        ctx.fail(name + '/empty-aggregate', 'sizes %s' % sizes.tolist(), case)
    if Cpts is not None:
        C = [int(c) for c in Cpts]
        if len(set(C)) != len(C):
            ctx.fail(name + '/roots-not-distinct', 'Cpts %s' % C, case)
        if AggOp.nnz and len(C) != nagg:
            ctx.fail(name + '/roots-count', '%d roots for %d aggregates' % (len(C), nagg), case)
        else:
            for k, c in enumerate(C):
                if not (0 <= c < n) or agg[c] != k:
                    ctx.fail(name + '/root-outside-its-aggregate', 'root %d of aggregate %d lies in %r' % (c, k, agg[c] if 0 <= c < n else None), case)
                    break
    if every and np.any(agg < 0):
        ctx.fail(name + '/unassigned', 'nodes %s unassigned' % np.where(agg < 0)[0].tolist(), case)
    if maxsize is not None and sizes.size and sizes.max() > maxsize:
        ctx.fail(name + '/too-large', 'aggregate of %d nodes (max %d)' % (sizes.max(), maxsize), case)
    return agg


def graph_cases(ctx):
    top = 6 if ctx.thorough else 5
    for n in range(1, top + 1):
        for edges in gen.all_sym_graphs(n):
            yield n, [(i, j) for i, j in edges] + [(j, i) for i, j in edges], False, True
            if n <= 4:
                yield n, [(i, j) for i, j in edges] + [(j, i) for i, j in edges], True, True
    for n in range(1, 4):
        for arcs in gen.all_directed_patterns(n):
            yield n, list(arcs), False, False


def run(ctx):
    from pyamg import amg_core
    rng = ctx.sub('w')
    cases, meta = [], []
    k = 0
    for n, arcs, diag, sym in graph_cases(ctx):
        A = gen.digraph_csr(n, arcs, diag=diag)
        Ap, Aj = A.indptr.astype(I32), A.indices.astype(I32)
        base = dict(n=n, arcs=arcs, diag=diag, symmetric=sym)
        nontriv = len(arcs) > 0
        k += 1
        ctx.mark(base)

        def add(alg, ls, out, nm):
            cases.append('(%d%%nat, %s, %s, %s, [], %s, %s)' % (
                alg, cq.z(n), cq.zl(Ap), cq.zl(Aj), cq.lst([cq.zl(a) for a in ls]), cq.zl(out)))
            meta.append((dict(base, alg=nm), [int(v) for v in out]))
            ctx.case((alg, n, tuple(arcs), diag, tuple(tuple(int(v) for v in a) for a in ls)), nontriv,
                     sample=dict(base, alg=nm, out=[int(v) for v in out]) if k % 500 == 3 else None)
            ctx.count(nm)
        for alg, fn, nm in ((20, amg_core.standard_aggregation, 'standard'), (21, amg_core.naive_aggregation, 'naive')):
            x = np.full(n, -5, dtype=I32)
            y = np.full(n, -7, dtype=I32)
            c = fn(n, Ap, Aj, x, y)
            add(alg, [[-7] * n], [c] + x.tolist() + y[:max(c, 0)].tolist(), nm)
        w = np.array([rng.choice([1, 2, 3]) for _ in range(len(Aj))], dtype=float)
        x = np.full(n, -5, dtype=I32)
        y = np.full(n, -7, dtype=I32)
        c = amg_core.pairwise_aggregation(n, Ap, Aj, w, x, y)
        add(22, [w.astype(int).tolist(), [-7] * n], [c] + x.tolist() + y[:max(c, 0)].tolist(), 'pairwise')
    ctx.exhaustive = True
    ctx.corr_relations = ['amg_core.{standard_aggregation,naive_aggregation,pairwise_aggregation} == Aggregate.* (exact)']
    bad, errs = cq.run_cases('c12', HEADER, 'caseT', 'chk2', cases, shard=1500)
    for e in errs:
        ctx.disagree('C12 model evaluation', None, e, None)
    for i in bad[:20]:
        case, out = meta[i]
        mo = cq.eval_term('c12_bad', HEADER, 'match %s with (a,n,p,j,zs,ls,_) => run2 a n p j zs ls end' % cases[i])
        ctx.disagree('aggregation kernel %s' % case.get('alg'), case, mo, out)
    public(ctx)


def random_sym(rng, n, kind):
    if kind == 'star':
        edges = [(0, i) for i in range(1, n)]
    elif kind == 'clique':
        edges = [(i, j) for i in range(n) for j in range(i + 1, n)]
    elif kind == 'pairs':
        edges = [(i, i + 1) for i in range(0, n - 1, 2)]
    elif kind == 'cycle':
        edges = sorted({tuple(sorted((i, (i + 1) % n))) for i in range(n)} - {(0, 0)}) if n > 2 else [(0, 1)]
    else:
        pr = {'sparse': 0.12, 'random': 0.35}[kind]
        edges = [(i, j) for i in range(n) for j in range(i + 1, n) if rng.random() < pr]
    return sorted(set(e for e in edges if e[0] != e[1]))


def public(ctx):
    from pyamg.aggregation import aggregate as agg
    rng = ctx.sub('public')
    comp_cases, comp_meta = [], []
    for it in range(50 if not ctx.thorough else 400):
        n = rng.choice([2, 4, 7, 10, 16, 25])
        kind = rng.choice(['star', 'clique', 'pairs', 'cycle', 'sparse', 'random', 'random'])
        edges = random_sym(rng, n, kind)
        diag = rng.random() < 0.6
        w = [rng.choice([0.25, 0.5, 1.0]) for _ in edges]
        C = gen.graph_csr(n, edges, diag=diag, weights=w)
        if it % 3 == 2:
            C = gen.unsorted_copy(C, rng)       # same graph, column indices of every row stored in shuffled order
        C.indptr = C.indptr.astype(I32)
        C.indices = C.indices.astype(I32)
        base = dict(n=n, edges=edges, diag=diag, kind=kind)
        ctx.mark(base)
        ctx.case(('public', n, tuple(edges), diag), bool(edges))
        ctx.count('public:' + kind)
        adj = [set() for _ in range(n)]
        for i, j in edges:
            adj[i].add(j)
            adj[j].add(i)
        # standard
        AggOp, Cpts = agg.standard_aggregation(C)
        a = partition_oracle(ctx, 'standard_aggregation', n, AggOp, Cpts, base)
        if a is not None:
            for i in range(n):
                if (a[i] < 0) != (len(adj[i]) == 0):
                    ctx.fail('standard_aggregation/unaggregated-iff-isolated',
                             'node %d: aggregate %d, degree %d' % (i, a[i], len(adj[i])), base)
                    break
            G = gen.graph_csr(n, edges)
            for kk in range(AggOp.shape[1] if AggOp.nnz else 0):
                mem = np.where(a == kk)[0]
                if len(mem) > 1:
                    nc, _ = csg.connected_components(sp.csr_array(G[mem, :][:, mem]), directed=False)
                    if nc != 1:
                        ctx.fail('standard_aggregation/disconnected-aggregate', 'aggregate %d = %s' % (kk, mem.tolist()), base)
                        break
        # naive
        AggOp, Cpts = agg.naive_aggregation(C)
        partition_oracle(ctx, 'naive_aggregation', n, AggOp, Cpts, base, every=True)
        # lloyd: every node that can reach a centre is assigned
        if n >= 2:
            for measure in ('unit', 'abs', 'inv', 'min', None):
                np.random.seed(ctx.seed + it)
                ratio = rng.choice([0.2, 0.5, 1.0])
                try:
                    AggOp, centers = agg.lloyd_aggregation(C, ratio=ratio, measure=measure, maxiter=rng.choice([1, 3]))
                except Exception as e:   # noqa
                    ctx.fail('lloyd_aggregation/raises', repr(e), dict(base, measure=measure))
                    continue
                cs = dict(base, measure=measure, ratio=ratio)
                a = partition_oracle(ctx, 'lloyd_aggregation', n, AggOp, None, cs)
                if a is not None:
                    nc, lab = csg.connected_components(sp.csr_array(gen.graph_csr(n, edges)), directed=False)
                    reach = {lab[int(c)] for c in centers}
                    for i in range(n):
                        if lab[i] in reach and a[i] < 0:
                            ctx.fail('lloyd_aggregation/reachable-unassigned', 'node %d' % i, cs)
                            break
                    if len(set(int(c) for c in centers)) != len(centers):
                        ctx.fail('lloyd_aggregation/centres-not-distinct', str(centers), cs)
                    for k_, c_ in enumerate(centers):
                        if a[int(c_)] != k_:
                            ctx.fail('lloyd_aggregation/centre-not-in-its-aggregate', 'centre %d (node %d) lies in aggregate %d' % (k_, int(c_), a[int(c_)]), cs)
                            break
        # balanced Lloyd (connected graphs with positive weights: its documented domain): a partition whose k-th centre lies in
        # aggregate k, for the default and for explicit numbers of rebalancing passes
        if n >= 4 and edges:
            ncomp_, _ = csg.connected_components(sp.csr_array(gen.graph_csr(n, edges)), directed=False)
            if ncomp_ == 1:
                for rb in (None, 0, 1, 3):
                    np.random.seed(ctx.seed + it)
                    kwb = {} if rb is None else {'rebalance_iters': rb}
                    csb = dict(base, routine='balanced_lloyd_aggregation', rebalance_iters=rb)
                    try:
                        AggB, cenB = agg.balanced_lloyd_aggregation(sp.csr_array(gen.graph_csr(n, edges, weights=w)), ratio=0.4, measure='abs', **kwb)
                    except Exception as e:   # noqa
                        ctx.fail('balanced_lloyd_aggregation/raises', repr(e), csb)
                        continue
                    ctx.count('public:balanced-lloyd')
                    ab = partition_oracle(ctx, 'balanced_lloyd_aggregation', n, AggB, None, csb)
                    if ab is not None:
                        for k_, c_ in enumerate(cenB):
                            if ab[int(c_)] != k_:
                                ctx.fail('balanced_lloyd_aggregation/centre-not-in-its-aggregate', 'centre %d (node %d) lies in aggregate %d' % (k_, int(c_), ab[int(c_)]), csb)
                                break
        # pairwise on an M-matrix built from the graph (symmetric and nonsymmetric)
        if edges:
            for nonsym in (False, True):
                W = np.zeros((n, n))
                for (i, j), ww in zip(edges, w):
                    W[i, j] = -ww
                    W[j, i] = -ww * (rng.choice([1.0, 0.5, 2.0]) if nonsym else 1.0)
                M = sp.csr_array(W + np.diag(-W.sum(1) + 0.5))
                for matchings in (1, 2, 3):
                    cs = dict(base, nonsym=nonsym, matchings=matchings, dense=M.toarray().tolist())
                    # the ids every matching of the driver produced are recorded (the kernel is wrapped for the call): the column
                    # indices of the returned T must be the composition of these id maps as Aggregate.compose forms it (in Coq)
                    rec_ = []
                    core_ = agg.amg_core

                    class _Spy:
                        def __getattr__(self, nm, core_=core_, rec_=rec_):
                            f_ = getattr(core_, nm)
                            if nm != 'pairwise_aggregation':
                                return f_

                            def wrapped(nr, Ap_, Aj_, Ax_, Tj_, cp_):
                                out = f_(nr, Ap_, Aj_, Ax_, Tj_, cp_)
                                rec_.append([int(v) for v in Tj_])
                                return out
                            return wrapped
                    try:
                        agg.amg_core = _Spy()
                        try:
                            T, Cpts = agg.pairwise_aggregation(M, matchings=matchings, theta=rng.choice([0.0, 0.25]), norm='min')
                        finally:
                            agg.amg_core = core_
                    except Exception as e:   # noqa
                        ctx.fail('pairwise_aggregation/raises', repr(e), cs)
                        continue
                    if matchings == 2 and len(rec_) == 2 and len(comp_cases) < 400:
                        Tc = sp.csr_array(T)
                        if Tc.nnz == n and np.all(np.diff(Tc.indptr) == 1):
                            comp_cases.append('(%s, %s, %s)' % (cq.zl(rec_[0]), cq.zl(rec_[1]), cq.zl([int(v) for v in Tc.indices])))
                            comp_meta.append(cs)
                    partition_oracle(ctx, 'pairwise_aggregation', n, T, Cpts, cs, every=True, maxsize=2 ** matchings)
                    # the same problem with two unknowns per node (BSR input): the aggregates are those of the nodes, every
                    # unknown of a node goes to the column of its own component (identity blocks), no column is empty
                    if matchings <= 2 and not nonsym:
                        Mb = sp.bsr_array(sp.csr_array(sp.kron(M, np.array([[2.0, 1.0], [1.0, 2.0]]))), blocksize=(2, 2))
                        csb = dict(cs, blocksize=2)
                        try:
                            Tb, Cb = agg.pairwise_aggregation(Mb, matchings=matchings, theta=0.0, norm='min')
                        except Exception as e:   # noqa
                            ctx.fail('pairwise_aggregation/bsr/raises', repr(e), csb)
                            continue
                        Td = sp.csr_array(Tb).toarray()
                        ctx.count('public:pairwise-bsr')
                        if Td.shape[0] != 2 * n or Td.shape[1] % 2 or not np.all((Td == 0) | (Td == 1)) or not np.all(Td.sum(1) == 1):
                            ctx.fail('pairwise_aggregation/bsr/not-a-partition', 'shape %r, row sums %s' % (Td.shape, sorted(set(Td.sum(1).tolist()))), csb)
                        elif np.any(Td.sum(0) == 0):
                            ctx.fail('pairwise_aggregation/bsr/empty-aggregate', 'columns %s of the aggregation operator are empty' % np.flatnonzero(Td.sum(0) == 0).tolist(), csb)
                        else:
                            colof = Td.argmax(1)
                            if any(colof[2 * i] % 2 != 0 or colof[2 * i + 1] != colof[2 * i] + 1 for i in range(n)):
                                ctx.fail('pairwise_aggregation/bsr/not-identity-blocks', 'the two unknowns of a node do not go to the two columns of one aggregate', csb)
                            elif np.bincount(colof[::2] // 2).max() > 2 ** matchings:
                                ctx.fail('pairwise_aggregation/bsr/aggregate-too-large', 'an aggregate has %d nodes after %d matchings' % (np.bincount(colof[::2] // 2).max(), matchings), csb)

    # composition of two matchings: T.indices == compose(ids of matching 1, ids of matching 2) - 1, evaluated in Coq
    if comp_cases:
        bad, errs = cq.run_cases('c12c', HEADER, '(list Z * list Z * list Z)%type', 'chkCompose', comp_cases, shard=200)
        for e in errs:
            ctx.disagree('C12 compose model evaluation', None, e, None)
        for i in bad[:10]:
            ctx.disagree('pairwise_aggregation (two matchings) == Aggregate.compose', comp_meta[i], 'model differs', comp_cases[i])
            ctx.fail('pairwise_aggregation/not-the-composition', 'T of two matchings is not the composition of the two id maps the kernel returned', comp_meta[i])
        ctx.count('corr:pairwise-compose', len(comp_cases))
        if 'T(two matchings).indices == Aggregate.compose(ids_1, ids_2) - 1 (exact, in Coq)' not in ctx.corr_relations:
            ctx.corr_relations.append('T(two matchings).indices == Aggregate.compose(ids_1, ids_2) - 1 (exact, in Coq)')


def search(ctx):
    run(ctx)


def replay(ctx, data):
    ctx.notes.append('replay: re-running the public oracle stream')
    public(ctx)
