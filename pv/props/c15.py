"""C15 -- setup is pure and reproducible; built solvers are reusable."""
import warnings

import numpy as np
import scipy.sparse as sp

from .. import hier

def _nn(v):
    """NaN counts as 'exceeds every bound' in the oracle comparisons"""
    return np.inf if np.isnan(v) else v


TECHNIQUE = 'Coq proof of cache coherence => history independence + bit-exact history correspondence, attribute-set diff, byte comparison of inputs'
LEVEL_TEXT = ('Kernel-checked theorems (Props/C15.v): in the model of a built solver (immutable hierarchy + lazily filled '
              'caches whose values are functions of the hierarchy, read through compute-if-absent) every operation '
              'returns the value determined by the hierarchy alone and preserves cache coherence; hence the result of a '
              'solve is the same whatever solves were performed before.  The model is tied to the code by (i) random '
              'histories of solves (varying b, x0, cycle, tol, maxiter, residual lists, accelerator) followed by an '
              'observed call, compared bit-for-bit with the same call on a fresh solver; (ii) an attribute-set diff of '
              'solver, levels and level matrices before/after: every attribute created by solving must be one of the '
              'modelled caches and every level operator must be byte-identical; (iii) bytes of the user\'s matrix and '
              'candidates before/after every constructor; (iv) the same matrix in CSR/CSC/COO/LIL/DIA/BSR/dense and the '
              'same seed twice must give the same / bit-identical levels.')
LEVEL_NOTE = ('Setup purity, format independence and seed reproducibility are statements about SciPy conversions and '
              'NumPy\'s global RNG: decided by the correspondence, not by a theorem.')
RULE = ('constructors classical / AIR / SA / root-node / pairwise on small Poisson, graph Laplacian, elasticity (BSR), '
        'complex and nonsymmetric matrices; histories of 1-5 solves then an observed solve vs a fresh solver (bit-identical); '
        'attribute diff; input bytes; 7 storage formats; seed twice.  Non-trivial: >= 2 levels and a non-empty history.')
RULE += (' '
         'Constructors incl. Jacobi (local / block / filtered), Richardson, energy smoothing, evolution strength, candidate improvement, relaxation-type coarse solvers, pairwise.')
THOROUGH_ROUNDS = 5
TRUSTED = ['SciPy format conversions', 'NumPy global RNG']
PARTIAL = ['setup purity / format independence / seed reproducibility: correspondence only']
# attributes that solving / smoothing may create (the caches of the model); anything else is reported
ALLOWED_NEW = {'rho', 'rho_D_inv', 'rho_block_D_inv', 'schwarz_parameters', 'P', 'LU', 'L', 'LU_Map', 'block_D_inv', 'block_D',
               'D_inv', 'Acsr', 'Acsc', 'Absr', 'symmetry',
               # SciPy's own lazily computed flags on a sparse matrix (set by reading .has_sorted_indices / .has_canonical_format)
               '_has_sorted_indices', '_has_canonical_format'}


def snapshot_levels(ml):
    snap = []
    for L in ml.levels:
        d = {}
        for nm in ('A', 'P', 'R'):
            if hasattr(L, nm):
                M = getattr(L, nm)
                d[nm] = (M.format, M.data.tobytes(), M.indices.tobytes(), M.indptr.tobytes())
        snap.append(d)
    return snap


def snapshot_operators(ml):
    """the level operators as MATRICES: entries in canonical (sorted-index) order.  A solve may bring the stored entries of a level
    matrix into sorted order (SciPy and the relaxation setups do that in place); that is not a change of the operator."""
    snap = []
    for L in ml.levels:
        d = {}
        for nm in ('A', 'P', 'R'):
            if hasattr(L, nm):
                M = getattr(L, nm).copy()
                if hasattr(M, 'sort_indices'):
                    M.sort_indices()
                d[nm] = (M.format, M.shape, M.data.tobytes(), M.indices.tobytes(), M.indptr.tobytes())
        snap.append(d)
    return snap


def attr_sets(ml):
    out = {'solver': set(vars(ml).keys()), 'coarse': set(vars(ml.coarse_solver).keys()) if hasattr(ml.coarse_solver, '__dict__') else set()}
    for i, L in enumerate(ml.levels):
        out['level%d' % i] = set(vars(L).keys())
        for nm in ('A', 'P', 'R'):
            if hasattr(L, nm):
                out['level%d.%s' % (i, nm)] = set(vars(getattr(L, nm)).keys())
    return out


def random_solve_args(rng, n, cplx, sym):
    b = np.array([rng.uniform(-1, 1) for _ in range(n)])
    if cplx:
        b = b + 1j * np.array([rng.uniform(-1, 1) for _ in range(n)])
    args = dict(tol=rng.choice([1e-2, 1e-6, 1e-10]), maxiter=rng.choice([1, 2, 5]), cycle=rng.choice(['V', 'W', 'F']))
    if rng.random() < 0.5:
        args['x0'] = np.array([rng.uniform(-1, 1) for _ in range(n)]).astype(b.dtype)
    if rng.random() < 0.3:
        args['accel'] = rng.choice(['cg', 'gmres'] if sym else ['gmres', 'bicgstab'])
    if rng.random() < 0.5:
        args['residuals'] = []
    return b, args


def do_solve(ml, b, args):
    a = dict(args)
    if 'residuals' in a:
        a['residuals'] = []
    with warnings.catch_warnings():
        warnings.simplefilter('ignore')
        x = ml.solve(b, **a)
    return x, a.get('residuals')


def run(ctx):
    import pyamg
    rng = ctx.sub('cfg')
    mats = hier.hpd_matrices(rng)
    items = [(b, m) for b in hier.builders() for m in mats] + [(hier.air_builder(), ('upwind-5x5', hier.nonsym_matrix(5)))]
    rng.shuffle(items)
    if not (ctx.thorough or ctx.search):
        items = items[:24]
    # constructors with their own sources of randomness (C rand() in CLJP, NumPy RNG in Lloyd / adaptive SA) or with
    # in-place operator filtering: always included
    real = [m for m in mats if not m[0].startswith('complex')]
    extra = [('rs-cljp', lambda A: pyamg.ruge_stuben_solver(sp.csr_array(A), CF='CLJP', max_coarse=3), 'sym'),
             ('rs-cljpc', lambda A: pyamg.ruge_stuben_solver(sp.csr_array(A), CF='CLJPc', max_coarse=3), 'sym'),
             ('rs-pmisc', lambda A: pyamg.ruge_stuben_solver(sp.csr_array(A), CF='PMISc', max_coarse=3), 'sym'),
             ('sa-lloyd', lambda A: pyamg.smoothed_aggregation_solver(A, aggregate=('lloyd', {'ratio': 0.3}), max_coarse=3), 'sym'),
             ('air-cljp', lambda A: pyamg.air_solver(sp.csr_array(A), CF='CLJP', max_coarse=4), 'nonsym'),
             ('air-filter', lambda A: pyamg.air_solver(sp.csr_array(A), filter_operator=(True, 0.2), max_coarse=4), 'nonsym'),
             # option paths with their own scaled / filtered copies of the operator, and relaxation-type coarse solvers
             # (which keep a work vector between calls)
             ('sa-jacobi-local', lambda A: pyamg.smoothed_aggregation_solver(A, smooth=('jacobi', {'weighting': 'local'}), max_coarse=3), 'sym'),
             ('sa-jacobi-block', lambda A: pyamg.smoothed_aggregation_solver(A, smooth=('jacobi', {'weighting': 'block'}), max_coarse=3), 'sym'),
             ('sa-jacobi-filter', lambda A: pyamg.smoothed_aggregation_solver(A, smooth=('jacobi', {'filter_entries': True, 'weighting': 'local'}), max_coarse=3), 'sym'),
             ('sa-richardson', lambda A: pyamg.smoothed_aggregation_solver(A, smooth=('richardson', {'degree': 2}), max_coarse=3), 'sym'),
             ('sa-energy', lambda A: pyamg.smoothed_aggregation_solver(A, smooth=('energy', {'maxiter': 2}), max_coarse=3), 'sym'),
             ('sa-evolution', lambda A: pyamg.smoothed_aggregation_solver(A, strength=('evolution', {'k': 2, 'epsilon': 4.0}), max_coarse=3), 'sym'),
             # strength measures that relax random test vectors (drawn from numpy's global generator: same seed, same hierarchy)
             ('sa-algebraic-distance', lambda A: pyamg.smoothed_aggregation_solver(A, strength=('algebraic_distance', {'epsilon': 2.0, 'R': 4, 'k': 5}), max_coarse=3), 'sym'),
             ('sa-affinity', lambda A: pyamg.smoothed_aggregation_solver(A, strength=('affinity', {'epsilon': 3.0, 'R': 4, 'k': 5}), max_coarse=3), 'sym'),
             ('rootnode-algebraic-distance', lambda A: pyamg.rootnode_solver(A, strength=('algebraic_distance', {'epsilon': 2.0}), max_coarse=3), 'sym'),
             ('rs-affinity', lambda A: pyamg.ruge_stuben_solver(sp.csr_array(A), strength=('affinity', {'epsilon': 3.0}), max_coarse=3), 'sym'),
             ('sa-improve', lambda A: pyamg.smoothed_aggregation_solver(
                 A, improve_candidates=[('gauss_seidel', {'sweep': 'symmetric', 'iterations': 2}), None], max_coarse=3), 'sym'),
             ('sa-coarse-gs', lambda A: pyamg.smoothed_aggregation_solver(A, coarse_solver='gauss_seidel', max_coarse=6), 'sym'),
             ('rs-coarse-jacobi', lambda A: pyamg.ruge_stuben_solver(sp.csr_array(A), coarse_solver=('jacobi', {'iterations': 5}), max_coarse=6), 'sym'),
             ('rootnode-coarse-bgs', lambda A: pyamg.rootnode_solver(A, coarse_solver='block_gauss_seidel', max_coarse=6), 'sym'),
             ('pairwise-default', lambda A: pyamg.pairwise_solver(sp.csr_array(A), max_coarse=4), 'sym'),
             # no strength measure: the level matrix itself is handed to the interpolation routines as "strength matrix"
             ('rs-nostrength-direct', lambda A: pyamg.ruge_stuben_solver(sp.csr_array(A), strength=None, interpolation='direct', max_coarse=3), 'sym'),
             ('rs-nostrength-classical', lambda A: pyamg.ruge_stuben_solver(sp.csr_array(A), strength=None, interpolation='classical', max_coarse=3), 'sym'),
             ('air-nostrength-direct', lambda A: pyamg.air_solver(sp.csr_array(A), strength=None, interpolation='direct', max_coarse=4), 'nonsym'),
             # smoothers whose weights come from a spectral-radius estimate (random start vector)
             ('sa-jacobi-smoother', lambda A: pyamg.smoothed_aggregation_solver(
                 A, presmoother=('jacobi', {'omega': 4.0 / 3.0}), postsmoother=('jacobi', {'omega': 4.0 / 3.0}), max_coarse=3), 'sym'),
             ('rs-richardson-smoother', lambda A: pyamg.ruge_stuben_solver(
                 sp.csr_array(A), presmoother='richardson', postsmoother='richardson', max_coarse=3), 'sym'),
             ('sa-chebyshev-smoother', lambda A: pyamg.smoothed_aggregation_solver(
                 A, presmoother=('chebyshev', {'degree': 2}), postsmoother=('chebyshev', {'degree': 2}), max_coarse=3), 'sym'),
             ('sa-block-jacobi-smoother', lambda A: pyamg.smoothed_aggregation_solver(
                 A, presmoother='block_jacobi', postsmoother='block_jacobi', max_coarse=3), 'sym')]
    bsr_m = [m for m in mats if sp.issparse(m[1]) and m[1].format == 'bsr'][:1]
    for ei, eb in enumerate(extra):
        if eb[2] == 'sym':
            items += [(eb, m) for m in (real[:2] if ei < 6 else [real[ei % len(real)]] + (bsr_m if 'block' in eb[0] or ei % 3 == 0 else []))]
        else:
            items.append((eb, ('upwind-6x6', hier.nonsym_matrix(6))))
    # the first real problem in other units (entries ~1e-18 and ~1e18): nothing of the user's matrix may be rounded away
    from pyamg.gallery import poisson as _pois
    Pbase = sp.csr_array(_pois((6, 5), format='csr'))
    for sc, tag in ((2.0 ** -60, '*2^-60'), (2.0 ** 60, '*2^60')):
        for b_ in [b for b in hier.builders() if b[0] in ('rs', 'sa', 'rootnode', 'pairwise')]:
            items.append((b_, ('poisson2d-6x5' + tag, sp.csr_array(Pbase * sc))))
    for (bname, f, kind), (mname, A) in items:
        base = dict(builder=bname, matrix=mname)
        ctx.mark(base)
        # ---- setup purity + reproducibility
        Acopy = A.copy()
        before = (A.data.tobytes(), A.indices.tobytes(), A.indptr.tobytes())
        np.random.seed(ctx.seed + 1)
        try:
            ml1 = f(A)
        except Exception:   # noqa
            continue
        if (A.data.tobytes(), A.indices.tobytes(), A.indptr.tobytes()) != before:
            ctx.fail('setup-modifies-input/' + bname, 'bytes of the user matrix changed during setup', base)
        np.random.seed(ctx.seed + 1)
        ml2 = f(Acopy.copy())
        s1, s2 = snapshot_levels(ml1), snapshot_levels(ml2)
        ctx.case(('repro', bname, mname), len(ml1.levels) > 1)
        ctx.count('builder:' + bname)
        if s1 != s2:
            ctx.fail('setup-not-reproducible/' + bname, 'same matrix and seed gave different levels', base)
        # ---- reusability: histories vs fresh
        n = A.shape[0]
        cplx = np.iscomplexobj(ml1.levels[0].A.data)
        sym = kind == 'sym'
        for trial in range(3 if not ctx.thorough else 8):
            np.random.seed(ctx.seed + 1)
            used = f(Acopy.copy())
            np.random.seed(ctx.seed + 1)
            fresh = f(Acopy.copy())
            lv_before = snapshot_operators(used)
            at_before = attr_sets(used)
            hist = [random_solve_args(rng, n, cplx, sym) for _ in range(rng.randrange(1, 6))]
            forced = None
            if trial == 0:
                # directed history: an accelerated solve with one cycle type, then the same call with another one
                bb, aa = random_solve_args(rng, n, cplx, sym)
                aa.update(accel='gmres', cycle='V', maxiter=2)
                hist = [(bb, aa)]
                forced = dict(aa, cycle='W')
                forced.pop('x0', None)
            for b, args in hist:
                try:
                    do_solve(used, b, args)
                except Exception as e:   # noqa
                    ctx.fail('solve/raises', repr(e), dict(base, args={k: v for k, v in args.items() if k != 'x0'}))
            b, args = random_solve_args(rng, n, cplx, sym)
            if forced is not None:
                args = forced
            case = dict(base, history=[{k: (v if k not in ('x0', 'residuals') else 'given') for k, v in a.items()} for _, a in hist],
                        observed={k: (v if k not in ('x0', 'residuals') else 'given') for k, v in args.items()})
            ctx.mark(case)
            try:
                xu, ru = do_solve(used, b, args)
                xf, rf = do_solve(fresh, b, args)
            except Exception as e:   # noqa
                ctx.fail('solve/raises', repr(e), case)
                continue
            ctx.case((bname, mname, trial, repr(case['history']), repr(case['observed'])), len(used.levels) > 1,
                     sample=case if len(ctx.samples) < 3 else None)
            ctx.count('history-len=%d' % len(hist))
            if xu.tobytes() != xf.tobytes() or (ru is not None and ru != rf):
                ctx.fail('solve-depends-on-history/' + bname, 'result differs from a fresh solver by %.3g' % np.linalg.norm(xu - xf), case)
            if snapshot_operators(used) != lv_before:
                ctx.fail('solve-modifies-level-operator/' + bname, 'A, P or R of some level changed bytes during solves', case)
            at_after = attr_sets(used)
            for where, names in at_after.items():
                new = names - at_before.get(where, set())
                unknown = {x for x in new if x not in ALLOWED_NEW}
                if unknown:
                    ctx.disagree('cache model: attributes created by solving must be modelled caches', case,
                                 sorted(ALLOWED_NEW), {where: sorted(unknown)})
    formats(ctx)
    candidates(ctx)
    shared_options(ctx)


def shared_options(ctx):
    """option objects (tuples with dictionaries inside) handed to two builds: the second build gets what the first one got, and
    the caller's objects come back as they were"""
    import copy
    import pyamg
    from pyamg.gallery import poisson
    A = sp.csr_array(poisson((7, 6), format='csr'))
    optsets = [('rootnode', pyamg.rootnode_solver, dict(smooth=('energy', {'krylov': 'cg', 'maxiter': 2, 'degree': 2, 'postfilter': {'theta': 0.1}}))),
               ('rootnode', pyamg.rootnode_solver, dict(smooth=('energy', {'krylov': 'cg', 'maxiter': 2, 'degree': 2, 'prefilter': {'theta': 0.1}, 'postfilter': {'k': 3}}))),
               ('sa', pyamg.smoothed_aggregation_solver, dict(smooth=('energy', {'krylov': 'gmres', 'maxiter': 2, 'postfilter': {'theta': 0.05}}),
                                                              strength=('symmetric', {'theta': 0.1}))),
               ('sa', pyamg.smoothed_aggregation_solver, dict(strength=[('symmetric', {'theta': 0.0}), ('evolution', {'k': 2})],
                                                              aggregate=['standard', ('lloyd', {'ratio': 0.3})], max_levels=4)),
               ('rs', lambda M, **kw: pyamg.ruge_stuben_solver(M, **kw), dict(strength=('classical', {'theta': 0.25}), presmoother=('gauss_seidel', {'sweep': 'symmetric'}))),
               ('air', lambda M, **kw: pyamg.air_solver(M, **kw), dict(strength=('classical', {'theta': 0.3, 'norm': 'min'}),
                                                                     restrict=('air', {'theta': 0.05, 'degree': 1})))]
    for cname, ctor, kw in optsets:
        before = copy.deepcopy(kw)
        case = dict(constructor=cname, options=repr(before))
        ctx.mark(case)
        try:
            with warnings.catch_warnings():
                warnings.simplefilter('ignore')
                np.random.seed(ctx.seed + 6)
                m1 = ctor(A.copy(), max_coarse=4, **kw)
                s1 = snapshot_levels(m1)
                mid = copy.deepcopy(kw)
                np.random.seed(ctx.seed + 6)
                m2 = ctor(A.copy(), max_coarse=4, **kw)
                s2 = snapshot_levels(m2)
                np.random.seed(ctx.seed + 6)
                m3 = ctor(A.copy(), max_coarse=4, **copy.deepcopy(before))
                s3 = snapshot_levels(m3)
        except Exception as e:   # noqa
            ctx.fail('setup/shared-options/raises', repr(e), case)
            continue
        ctx.case(('shared-options', cname, repr(before)), True)
        ctx.count('shared-options')
        if repr(mid) != repr(before) or repr(kw) != repr(before):
            # (per-level lists are padded in place by the constructors: not a claim of the property, which is about what is BUILT)
            ctx.count('shared-options:objects-changed-by-setup')
        if s1 != s2 or s1 != s3:
            ctx.fail('setup-not-reproducible/shared-options/' + cname, 'a second build with the SAME option objects (same matrix, same seed) gives other levels%s'
                     % ('' if s1 == s3 else ' (and so does a build with a fresh copy of the options)'), case)


def candidates(ctx):
    """the caller's candidate vectors (B, and BH for nonsymmetric problems) come back bit for bit"""
    import pyamg
    from pyamg.gallery import poisson, linear_elasticity
    A = sp.csr_array(poisson((7, 6), format='csr'))
    n = A.shape[0]
    rng = ctx.sub('cands')
    Bz = np.ones((n, 1))
    Bz[[3, 10, 25], 0] = 0.0                          # a candidate with zero entries (e.g. Dirichlet rows)
    B2 = np.column_stack([np.ones(n), np.arange(n) % 5 - 2.0])
    Ae, Be = linear_elasticity((4, 4))
    Ae = sp.bsr_array(Ae, blocksize=(2, 2))
    An = hier.nonsym_matrix(6)
    opts = [('strength=evolution', dict(strength=('evolution', {'k': 2}))), ('strength=evolution/D_A', dict(strength=('evolution', {'k': 2, 'proj_type': 'D_A'}))),
            ('improve_candidates', dict(improve_candidates=[('gauss_seidel', {'sweep': 'symmetric', 'iterations': 3}), None])),
            ('improve_candidates/jacobi', dict(improve_candidates=('jacobi', {'iterations': 2}))),
            ('smooth=energy', dict(smooth=('energy', {'maxiter': 2}))), ('smooth=jacobi/filter', dict(smooth=('jacobi', {'filter_entries': True}))),
            ('default', {})]
    for cname, ctor in (('sa', pyamg.smoothed_aggregation_solver), ('rootnode', pyamg.rootnode_solver)):
        for oname, kw in opts:
            for pname, M, B, BH in (('poisson/zeros-in-B', A, Bz, None), ('poisson/2-candidates', A, B2, None), ('elasticity', Ae, Be, None),
                                    ('upwind/B-and-BH', An, np.ones((An.shape[0], 1)), np.ones((An.shape[0], 1)) * 2.0)):
                Buser = np.array(B, copy=True)
                BHuser = None if BH is None else np.array(BH, copy=True)
                kw_ = dict(kw)
                if BH is not None:
                    kw_.update(BH=BHuser, symmetry='nonsymmetric')
                case = dict(constructor=cname, options=oname, problem=pname)
                ctx.mark(case)
                np.random.seed(ctx.seed + 4)
                try:
                    with warnings.catch_warnings():
                        warnings.simplefilter('ignore')
                        ctor(M.copy(), B=Buser, max_coarse=4, **kw_)
                except Exception as e:   # noqa
                    ctx.count('candidates-unsupported:%s/%s' % (cname, oname))
                    continue
                ctx.case(('candidates', cname, oname, pname), True)
                ctx.count('candidates:' + oname)
                if Buser.tobytes() != np.asarray(B).tobytes():
                    ch = np.argwhere(Buser != np.asarray(B))
                    ctx.fail('setup-modifies-candidates/%s' % oname, '%s(%s): %d entries of the caller\'s B changed, e.g. B%s: %r -> %r'
                             % (cname, oname, len(ch), tuple(ch[0]), np.asarray(B)[tuple(ch[0])], Buser[tuple(ch[0])]), case)
                if BH is not None and BHuser.tobytes() != np.asarray(BH).tobytes():
                    ctx.fail('setup-modifies-candidates/BH/%s' % oname, '%s(%s): the caller\'s BH changed' % (cname, oname), case)
    # the strength routine on its own
    from pyamg.strength import evolution_strength_of_connection
    Bu = Bz.copy()
    evolution_strength_of_connection(A, Bu)
    ctx.case(('candidates', 'evolution_strength_of_connection'), True)
    if Bu.tobytes() != Bz.tobytes():
        ctx.fail('setup-modifies-candidates/evolution_strength_of_connection', 'zero entries of the caller\'s B were overwritten: %s -> %s'
                 % (Bz[[3, 10, 25], 0].tolist(), Bu[[3, 10, 25], 0].tolist()), dict(routine='evolution_strength_of_connection'))


def formats(ctx):
    """the same matrix in any sparse format or dense gives the same hierarchy"""
    import pyamg
    from pyamg.gallery import poisson
    P0 = sp.csr_array(poisson((6, 5), format='csr'))
    u_ = np.exp(1j * 0.4 * np.arange(30))
    variants = [('float64', P0, np.ones((30, 1))),
                ('float32', sp.csr_array(P0.astype(np.float32)), np.ones((30, 1), dtype=np.float32)),
                ('complex128', sp.csr_array(sp.diags_array(u_) @ P0 @ sp.diags_array(u_.conj())), u_.reshape(-1, 1).copy())]
    # explicitly STORED zeros (what setdiag / in-place filtering leaves behind): the sparse formats that can carry them must agree
    Pz = P0.copy()
    Pz.data[[2, 9, 17, 40, 41, 77]] = 0.0
    variants.append(('float64/stored-zeros', Pz, np.ones((30, 1))))
    from pyamg.gallery import stencil_grid
    from pyamg.gallery.diffusion import diffusion_stencil_2d
    Pan = sp.csr_array(stencil_grid(diffusion_stencil_2d(epsilon=0.01, theta=0.4, type='FD'), (6, 5), format='csr'))
    variants.append(('float64/anisotropic', Pan, np.ones((30, 1))))
    for vname, P, B in variants:
      for bname, f in (('classical', lambda M: pyamg.ruge_stuben_solver(M, max_coarse=3)),
                       ('sa', lambda M: pyamg.smoothed_aggregation_solver(M, B=B, max_coarse=3)),
                       ('rootnode', lambda M: pyamg.rootnode_solver(M, B=B, max_coarse=3)),
                       ('pairwise', lambda M: pyamg.pairwise_solver(M, max_coarse=3)),
                       ('air', lambda M: pyamg.air_solver(M, max_coarse=3)),
                       # option paths that look at the entries of the matrix through products / sums
                       ('sa-diagdom', lambda M: pyamg.smoothed_aggregation_solver(M, B=B, diagonal_dominance=True, max_coarse=3)),
                       ('rootnode-diagdom', lambda M: pyamg.rootnode_solver(M, B=B, diagonal_dominance=(True, {'theta': 1.2}), max_coarse=3)),
                       ('sa-jacobi-filter', lambda M: pyamg.smoothed_aggregation_solver(
                           M, B=B, strength=('symmetric', {'theta': 0.3}), smooth=('jacobi', {'filter_entries': True}), max_coarse=3)),
                       ('sa-evolution', lambda M: pyamg.smoothed_aggregation_solver(M, B=B, strength=('evolution', {'k': 2}), max_coarse=3))):
          ref = None
          for fmt in (('csr', 'csc', 'coo', 'lil', 'dia', 'bsr', 'dense', 'csr_matrix', 'bsr_matrix', 'csc_matrix', 'csr-unsorted') if not vname.endswith('stored-zeros') else ('csr', 'csc', 'coo')):
              if fmt == 'csr-unsorted':
                  from .. import gen as _gen
                  M = _gen.unsorted_copy(P, ctx.sub('unsorted-' + bname))       # CSR with shuffled column order in each row
              elif fmt.endswith('_matrix'):
                  M = getattr(sp, fmt)(P)       # the legacy SciPy matrix classes ('*' is a matrix product there)
              else:
                  M = P.toarray() if fmt == 'dense' else P.asformat(fmt)
              keep = P.toarray().copy()
              Bk = B.copy()
              case = dict(builder=bname, format=fmt, dtype=vname)
              ctx.mark(case)
              np.random.seed(ctx.seed + 2)
              try:
                  with warnings.catch_warnings():
                      warnings.simplefilter('ignore')
                      ml = f(M)
              except Exception as e:   # noqa
                  ctx.count('format-unsupported:%s/%s' % (bname, fmt))
                  if ref is not None and (bname, fmt) not in (('air', 'dense'),):
                      # the CSR input of the same data built a hierarchy: an input class / format that is accepted elsewhere must not fail
                      ctx.fail('format-dependent-hierarchy/%s/raises' % bname, '%s input raises %r while CSR input of the same matrix builds a hierarchy' % (fmt, e), case)
                  continue
              ctx.case(('format', bname, fmt, vname), True)
              ctx.count('format:' + fmt)
              now = M if fmt == 'dense' else M.toarray()
              if _nn(np.abs(now - keep).max()) > 0 or _nn(np.abs(B - Bk).max()) > 0:
                  ctx.fail('setup-modifies-input/%s/%s' % (bname, fmt), 'numerical content of A or B changed', case)
              dts = [str(L.A.dtype) for L in ml.levels]
              if ref is not None and fmt != 'csr-unsorted' and dts != ref[3]:
                  ctx.fail('format-dependent-hierarchy/%s/dtype' % bname, 'input dtype %s: format %s gives level dtypes %s, %s gives %s'
                           % (P.dtype, fmt, dts, ref[2], ref[3]), case)
              sizes = [L.A.shape[0] for L in ml.levels]
              dense = [hier.dense_of(L.A) for L in ml.levels]
              if ref is None:
                  ref = (sizes, dense, fmt, dts)
                  continue
              if fmt == 'csr-unsorted':
                  # aggregation visits neighbours in storage order, so another (equally valid) hierarchy may result: only
                  # setup purity is claimed for this storage variant
                  continue
              if sizes != ref[0]:
                  ctx.fail('format-dependent-hierarchy/' + bname, '%s gives level sizes %s, %s gives %s' % (fmt, sizes, ref[2], ref[0]), case)
              else:
                  for l, (a, b_) in enumerate(zip(dense, ref[1])):
                      if _nn(np.abs(a - b_).max()) > (1e-12 if vname != 'float32' else 1e-5) * (1 + np.abs(b_).max()):
                          ctx.fail('format-dependent-hierarchy/' + bname, 'level %d matrix differs between %s and %s' % (l, fmt, ref[2]), case)
                          break
    ctx.corr_relations = ['observed solve after a random history == same solve on a fresh solver (bit-identical)',
                          'attributes created by solving are a subset of the modelled caches; level operators byte-identical']


def search(ctx):
    run(ctx)


def replay(ctx, data):
    ctx.search = True
    run(ctx)
