"""C10 -- aggregation-based prolongators reproduce the near-nullspace candidates."""
import warnings

import numpy as np
import scipy.sparse as sp

from .. import coqrun as cq
from .. import gen

def _nn(v):
    """NaN counts as 'exceeds every bound' in the oracle comparisons"""
    return np.inf if np.isnan(v) else v


TECHNIQUE = 'Coq proof that modified Gram-Schmidt with drop threshold reconstructs the candidates + bit-exact fit_candidates correspondence + prolongator oracle'
LEVEL_TEXT = ('Kernel-checked theorems (Props/C10.v) about the Gallina model of fit_candidates over any field and for any '
              'function used as square root: for every aggregate, candidate block and threshold, each kept column of the '
              'local candidates equals sum_{i<=j} R[i,j] q_i (so T * B_coarse = B on every aggregated unknown), and a '
              'dropped column differs by exactly the discarded remainder; and every Gram-Schmidt step preserves "columns '
              'pairwise orthogonal, each of unit length (kept, given nrm^2 = |v|^2) or zero (dropped)", i.e. Q^T Q = '
              'diag(1 or 0); the induction over all columns of an aggregate is carried out in C10_gram_schmidt_aggregate_orthonormal '
              '(q_i.q_j = 0 for i < j, q_i.q_i = 1 or q_i orthogonal to everything).  The model evaluated at PrimFloat must '
              'reproduce bit-for-bit the Q and R arrays of the rebuilt working-tree kernel for all partitions with '
              'unaggregated rows, 1-3 candidates, nodal block sizes 1-3 and locally rank-deficient candidates; an oracle '
              'checks on the public routines: orthonormal-or-zero columns, T B_c = B, and for every prolongation smoother '
              '(Jacobi, Richardson, filtered Jacobi, energy minimisation with cg / cgnr / gmres, root-node) the preserved '
              'product P B_c = B, pattern containment, the Jacobi/Richardson polynomial, identity rows at root nodes.')
LEVEL_NOTE = ('Constraint projection: the algebraic reason P B_c is preserved is a theorem (C10_constrained_update_preserves_candidates, any '
              'commutative ring: a row U_i - (U_i B_i) X_i B_i^H with X_i (B_i^H B_i) = 1 annihilates the candidates); that compute_BtBinv '
              'returns such X_i and that satisfy_constraints performs that projection inside the pattern is decided by the oracle '
              '(constraint_projection) on the working tree, not by a kernel model.  Krylov energy minimisation: oracle only.  Complex candidates: oracle only.')
RULE = ('random partitions of 4-12 nodes into aggregates (with unaggregated rows), K1 in 1..3, K2 in 1..3, candidates incl. '
        'locally rank-deficient and zero columns: amg_core.fit_candidates == FitCand model (PrimFloat, bit-exact); public '
        'fit_candidates real/complex; SA / root-node hierarchies with every smoothing variant, keep=True: P B_c == B, '
        'pattern containment, polynomial identity.  Non-trivial: an aggregate with >= 2 nodes.')
RULE += (' '
         'Polynomial identity P = (I - cK)^d T fitted for Jacobi (diagonal, block, local weighting) and Richardson, degrees 1-3, CSR and BSR, incl. a BSR problem rescaled per unknown (diagonal blocks not multiples of the identity).')
THOROUGH_ROUNDS = 8
TRUSTED = ['NumPy/SciPy on the oracle side', 'spectral-radius estimate inside the Jacobi/Richardson smoothers (value read back, not trusted)']
PARTIAL = ['constraint projection: theorem about the formula, kernel tied by oracle only (no Gallina model of satisfy_constraints_helper)', 'energy minimisation invariants, root-node identity rows: oracle only']
HEADER = ('From Coq Require Import ZArith List PrimFloat.\nImport ListNotations.\n'
          'Require Import PV.Base.Ops PV.Model.FitCandRun.\nOpen Scope Z_scope.\n')
I32 = np.int32


def random_aggop(rng, n):
    nagg = rng.randrange(1, max(2, n // 2) + 1)
    assign = [rng.randrange(-1, nagg) if rng.random() < 0.9 else -1 for _ in range(n)]
    used = sorted({a for a in assign if a >= 0})
    if not used:
        assign[0] = 0
        used = [0]
    remap = {a: k for k, a in enumerate(used)}
    rows = [i for i, a in enumerate(assign) if a >= 0]
    cols = [remap[assign[i]] for i in rows]
    M = sp.csr_array((np.ones(len(rows)), (np.array(rows, dtype=I32), np.array(cols, dtype=I32))), shape=(n, len(used)))
    M.indices, M.indptr = M.indices.astype(I32), M.indptr.astype(I32)     # the bindings accept int32 index arrays only
    return M


def run(ctx):
    from pyamg import amg_core
    from pyamg.aggregation import fit_candidates
    rng = ctx.sub('fc')
    cases, meta = [], []
    for it in range(150 if not ctx.thorough else 500):
        n = rng.choice([4, 5, 7, 9, 12])
        K1 = rng.choice([1, 1, 2, 3])
        K2 = rng.choice([1, 2, 3])
        AggOp = random_aggop(rng, n)
        B = np.array([[rng.choice([-2, -1, 0, 0.5, 1, 1.5, 3]) for _ in range(K2)] for _ in range(n * K1)], dtype=float)
        mode = rng.choice(['plain', 'plain', 'dependent', 'zero-col', 'float'])
        if mode == 'dependent' and K2 > 1:
            B[:, -1] = 2 * B[:, 0]
        elif mode == 'zero-col':
            B[:, rng.randrange(K2)] = 0
        elif mode == 'float':
            B = np.array([[rng.uniform(-1, 1) for _ in range(K2)] for _ in range(n * K1)])
        tol = rng.choice([1e-10, 1e-3, 0.5])
        Acsc = AggOp.tocsc()
        Ap, Ai = Acsc.indptr.astype(I32), Acsc.indices.astype(I32)
        ncol = AggOp.shape[1]
        Qx = np.zeros(AggOp.nnz * K1 * K2)
        R = np.zeros(ncol * K2 * K2)
        case = dict(n=n, K1=K1, K2=K2, tol=tol, mode=mode, aggregates=[Ai[Ap[j]:Ap[j + 1]].tolist() for j in range(ncol)], B=B.tolist())
        ctx.mark(case)
        amg_core.fit_candidates(n, ncol, K1, K2, Ap, Ai, Qx, B.ravel().copy(), R, tol)
        big = any(Ap[j + 1] - Ap[j] >= 2 for j in range(ncol))
        ctx.case(('kernel', it), big, sample=dict(case, R=R.tolist()) if len(ctx.samples) < 2 and big else None)
        ctx.count('mode:' + mode)
        cases.append('(%s, %s, %s, %s, %s, %s, %s, (%s, %s))' % (
            cq.z(ncol), cq.z(K1), cq.z(K2), cq.zl(Ap), cq.zl(Ai), cq.fll(B.ravel()), cq.fl(tol), cq.fll(Qx), cq.fll(R)))
        meta.append((case, [Qx.tolist(), R.tolist()]))
        # ---- oracle on the public routine (real and a complex rotation of the same data)
        Bim = np.array([[rng.choice([-1, 0, 0.5, 1, 2]) for _ in range(K2)] for _ in range(n * K1)], dtype=float)
        for cplx in (False, True, 'general'):
            # (True: one common phase; 'general': columns and rows of differing phase -- the inner products conjugate the LEFT factor)
            Bc = B if not cplx else (B * np.exp(1j * 0.7) if cplx is True else B + 1j * Bim)
            try:
                Q, Rc = fit_candidates(sp.csr_array(AggOp), Bc, tol=tol)
            except Exception as e:   # noqa
                ctx.fail('fit_candidates/raises', repr(e), dict(case, complex=cplx))
                continue
            Qd = Q.toarray()
            if not (np.all(np.isfinite(Qd)) and np.all(np.isfinite(Rc))):
                ctx.fail('fit_candidates/non-finite', 'T or the coarse candidates contain inf/NaN (mode %s)' % mode, dict(case, complex=cplx))
                continue
            G = Qd.conj().T @ Qd
            dg = np.real(np.diag(G))
            cs = dict(case, complex=cplx)
            if _nn(np.abs(G - np.diag(np.diag(G))).max()) > 1e-10 or np.any((np.abs(dg - 1) > 1e-10) & (np.abs(dg) > 1e-10)):
                ctx.fail('fit_candidates/columns-not-orthonormal-or-zero', 'max offdiag %.3g, norms %s' % (np.abs(G - np.diag(np.diag(G))).max(), dg), cs)
            agg_rows = np.repeat(np.diff(AggOp.indptr) > 0, K1)
            defect = (Qd @ Rc - Bc)[agg_rows]
            if tol <= 1e-10 and mode in ('plain', 'float') and _nn(np.abs(defect).max()) > 1e-9 * (1 + np.abs(Bc).max()):
                ctx.fail('fit_candidates/does-not-reproduce-B', '|T B_c - B| = %.3g on aggregated rows' % np.abs(defect).max(), cs)
            if np.abs(Qd[~agg_rows]).max(initial=0) != 0:
                ctx.fail('fit_candidates/unaggregated-row-nonzero', '', cs)
            ctx.count('public:fit_candidates')
    ctx.corr_relations = ['amg_core.fit_candidates (Qx, R) == FitCand.mgs per aggregate at PrimFloat (bit-exact)']
    bad, errs = cq.run_cases('c10', HEADER, 'caseT', 'chk', cases, shard=60)
    for e in errs:
        ctx.disagree('C10 model evaluation', None, e, None)
    for i in bad[:20]:
        case, out = meta[i]
        ctx.disagree('fit_candidates kernel', case, 'FitCand model differs', out)
    smoothers(ctx)
    direct_smoother_calls(ctx)
    constraint_projection(ctx)


def smoothers(ctx):
    """prolongation smoothing: preserved product, pattern, polynomial, root-node rows"""
    import pyamg
    from pyamg.gallery import poisson, linear_elasticity
    from pyamg.aggregation.smooth import jacobi_prolongation_smoother, richardson_prolongation_smoother
    rng = ctx.sub('sm')
    probs = [('poisson-6x6', sp.csr_array(poisson((6, 6), format='csr')), np.ones((36, 1)))]
    A, B = linear_elasticity((4, 4))
    probs.append(('elasticity-4x4', sp.bsr_array(A, blocksize=(2, 2)), B))
    # the same operator in other units per unknown (D A D, candidates D^-1 B): the diagonal blocks are no longer
    # multiples of the identity, so block-diagonal scaling from the left and from the right differ
    dsc = np.array([1.0 + 0.5 * rng.random() for _ in range(A.shape[0])])
    Asc = sp.bsr_array(sp.csr_array(sp.diags_array(dsc) @ sp.csr_array(A) @ sp.diags_array(dsc)), blocksize=(2, 2))
    probs.append(('elasticity-4x4-rescaled', Asc, B / dsc[:, None]))
    # a single candidate of small magnitude (the property does not depend on the scaling of B)
    probs.append(('poisson-6x6/B*1e-6', sp.csr_array(poisson((6, 6), format='csr')), 1e-6 * np.ones((36, 1))))
    probs.append(('poisson-6x6/B*2^40', sp.csr_array(poisson((6, 6), format='csr')), 2.0 ** 40 * np.ones((36, 1))))
    variants = [('jacobi', {}), ('jacobi', {'degree': 2, 'omega': 1.0}), ('jacobi', {'filter_entries': True}),
                ('jacobi', {'filter_entries': True, 'degree': 2}), ('jacobi', {'filter_entries': True, 'degree': 3, 'weighting': 'local'}),
                ('jacobi', {'weighting': 'local'}), ('richardson', {}), ('richardson', {'degree': 2}), ('richardson', {'degree': 3, 'omega': 1.0}),
                ('jacobi', {'weighting': 'block'}), ('jacobi', {'weighting': 'block', 'degree': 2}), ('jacobi', {'weighting': 'diagonal', 'degree': 3}),
                ('jacobi', {'weighting': 'local', 'degree': 2}),
                ('energy', {'krylov': 'cg', 'maxiter': 2}), ('energy', {'krylov': 'cgnr', 'maxiter': 2}),
                ('energy', {'krylov': 'gmres', 'maxiter': 3, 'degree': 2}), ('energy', {'krylov': 'cg', 'weighting': 'diagonal'}),
                ('energy', {'krylov': 'cg', 'maxiter': 2, 'degree': 0}), ('energy', {'krylov': 'gmres', 'maxiter': 2, 'degree': 0}),
                # entries of the smoothed P dropped afterwards (then the constraints are enforced once more on what is left)
                ('energy', {'krylov': 'cg', 'maxiter': 3, 'degree': 2, 'postfilter': {'theta': 0.1}}),
                ('energy', {'krylov': 'cg', 'maxiter': 3, 'degree': 2, 'postfilter': {'k': 3}}),
                ('energy', {'krylov': 'gmres', 'maxiter': 3, 'degree': 2, 'postfilter': {'theta': 0.05, 'k': 4}}), None]
    for pname, A, B in probs:
        for sm in variants:
            for ctor, aggr in (('sa', 'standard'), ('rootnode', 'standard'), ('rootnode', 'naive'),
                               ('rootnode', ('lloyd', {'ratio': 0.25, 'maxiter': 3})), ('sa', ('lloyd', {'ratio': 0.25, 'maxiter': 3}))):
                if ctor == 'rootnode' and (sm is None or sm[0] != 'energy'):
                    continue
                if aggr != 'standard' and not (sm is not None and sm[0] == 'energy' and sm[1].get('krylov') in ('cg', 'gmres')):
                    continue          # other aggregations (root nodes not in index order): energy smoothing only
                case = dict(problem=pname, smooth=sm, constructor=ctor, aggregate=aggr)
                ctx.mark(case)
                np.random.seed(ctx.seed)
                try:
                    with warnings.catch_warnings():
                        warnings.simplefilter('ignore')
                        f = pyamg.smoothed_aggregation_solver if ctor == 'sa' else pyamg.rootnode_solver
                        ml = f(A, B=B.copy(), smooth=sm, aggregate=aggr, max_coarse=4, keep=True, improve_candidates=None)
                except Exception as e:   # noqa
                    ctx.fail('constructor/raises', repr(e), case)
                    continue
                ctx.case((pname, repr(sm), ctor, repr(aggr)), len(ml.levels) > 1)
                ctx.count('smooth:' + (sm[0] if sm else 'none'))
                for l in range(len(ml.levels) - 1):
                    L, Lc = ml.levels[l], ml.levels[l + 1]
                    P, T = L.P.toarray(), L.T.toarray()
                    Bf, Bc = L.B, Lc.B
                    cs = dict(case, level=l)
                    scale = np.abs(Bf).max() or 1.0          # (relative to the candidates: they may be of any magnitude)
                    if _nn(np.abs(T @ Bc - Bf).max()) > 1e-8 * scale and ctor == 'sa':
                        ctx.fail('tentative/does-not-reproduce-B', '|T B_c - B| = %.3g' % np.abs(T @ Bc - Bf).max(), cs)
                    constrained = sm is not None and (sm[0] == 'energy' or sm[1].get('filter_entries'))
                    if constrained:
                        if ctor == 'sa' and _nn(np.abs(P @ Bc - Bf).max()) > 1e-7 * scale:
                            ctx.fail('smoothing/%s/changes-P-B' % sm[0], '|P B_c - B| = %.3g' % np.abs(P @ Bc - Bf).max(), cs)
                        # pattern: |A|^degree |T| (energy) or the strength-filtered pattern
                        deg = sm[1].get('degree', 1)
                        # the pattern is defined on blocks: (block pattern of A)^degree times the aggregate membership,
                        # every block full (entries of A or T that happen to be zero do not shrink it)
                        bf = L.A.blocksize[0] if sp.issparse(L.A) and L.A.format == 'bsr' else 1
                        bc = P.shape[1] // L.AggOp.shape[1]
                        nf = P.shape[0] // bf
                        Ad_ = np.abs(L.A.toarray()).reshape(nf, bf, nf, bf).sum(axis=(1, 3)) != 0
                        node_pat = (np.linalg.matrix_power(Ad_.astype(float) + np.eye(nf), deg) @ np.abs(L.AggOp.toarray())) != 0
                        pat = np.kron(node_pat, np.ones((bf, bc))) != 0
                        if sm[0] == 'energy' and np.any((P != 0) & ~pat & (np.abs(T) == 0)):
                            ctx.fail('smoothing/energy/outside-pattern', 'entries outside the allowed sparsity pattern', cs)
                    if ctor == 'rootnode' and sm is not None and sm[0] == 'energy':
                        # root-node energy smoothing keeps P B_c = B on every row whose allowed pattern supports the
                        # constraints: the coarse candidates restricted to the row's pattern have full column rank
                        deg_ = sm[1].get('degree', 1)
                        bf_ = L.A.blocksize[0] if sp.issparse(L.A) and L.A.format == 'bsr' else 1
                        bc_ = P.shape[1] // L.AggOp.shape[1]
                        nf_ = P.shape[0] // bf_
                        Apat = np.abs(L.A.toarray()).reshape(nf_, bf_, nf_, bf_).sum(axis=(1, 3)) != 0
                        npat = (np.linalg.matrix_power(Apat.astype(float) + np.eye(nf_), deg_) @ np.abs(L.AggOp.toarray())) != 0
                        rpat = np.kron(npat, np.ones((bf_, bc_))) != 0
                        if sm[1].get('postfilter') or sm[1].get('prefilter'):
                            # after dropping, the pattern that is left is the pattern of P itself
                            rpat = P != 0
                        PB = P @ Bc
                        K_ = Bc.shape[1]
                        worst = 0.0
                        for r_ in range(P.shape[0]):
                            cols_ = np.flatnonzero(rpat[r_])
                            if len(cols_) and np.linalg.matrix_rank(Bc[cols_], tol=1e-8 * (1 + np.abs(Bc).max())) == K_:
                                worst = max(worst, _nn(np.abs(PB[r_] - Bf[r_]).max()))
                        ctx.count('rootnode:supported-rows-checked')
                        if worst > 1e-6 * scale:
                            ctx.fail('rootnode/does-not-reproduce-B', 'max |P B_c - B| on rows whose pattern supports the constraints = %.3g' % worst, cs)
                    if ctor == 'rootnode':
                        Cpts = L.Cpts
                        rows = np.asarray(Cpts)          # degree-of-freedom indices of the root nodes
                        if _nn(np.abs(P[rows] - np.eye(P.shape[1])).max()) > 1e-12:
                            ctx.fail('rootnode/identity-rows', 'rows of P at the root nodes are not the identity', cs)
                        if _nn(np.abs(Bf[rows] - Bc).max()) > 1e-12 * scale:
                            ctx.fail('rootnode/coarse-candidates-not-injected', '', cs)
                # polynomial identity for unconstrained Jacobi / Richardson on level 0:
                #   P = (I - c K)^degree T,  K = D^-1 A (Jacobi: D = diagonal / block diagonal / |row sums|) or K = A
                #   (Richardson), c = omega / rho_estimate(K)  (c = omega for weighting 'local').  The routine divides by an
                #   ESTIMATE of the spectral radius, so c is recovered by a one-dimensional fit and must lie in
                #   [omega/rho, omega/(0.85 rho)]; the fitted polynomial must then reproduce P to rounding.
                if sm is not None and sm[0] in ('jacobi', 'richardson') and not sm[1].get('filter_entries') and len(ml.levels) > 1:
                    L = ml.levels[0]
                    Ad, T, Pd = L.A.toarray(), L.T.toarray(), L.P.toarray()
                    deg = sm[1].get('degree', 1)
                    om = sm[1].get('omega', 4.0 / 3.0)
                    nfull = Ad.shape[0]
                    bsz = L.A.blocksize[0] if sp.issparse(L.A) and L.A.format == 'bsr' else 1
                    wt = sm[1].get('weighting', 'diagonal')
                    if sm[0] == 'richardson':
                        K = Ad
                    elif wt == 'local':
                        K = Ad / np.abs(Ad).sum(1)[:, None]
                    elif wt == 'block':
                        Dinv = np.zeros_like(Ad)
                        for k in range(nfull // bsz):
                            sl = slice(k * bsz, (k + 1) * bsz)
                            Dinv[sl, sl] = np.linalg.inv(Ad[sl, sl])
                        K = Dinv @ Ad
                    else:
                        K = Ad / np.diag(Ad)[:, None]
                    I_ = np.eye(nfull)

                    def poly(c):
                        return np.linalg.matrix_power(I_ - c * K, deg) @ T
                    if sm[0] == 'jacobi' and wt == 'local':
                        cfit, lo, hi = om, om, om
                    else:
                        rho = max(abs(np.linalg.eigvals(K)))
                        lo, hi = om / rho * 0.99, om / (0.85 * rho)
                        from scipy.optimize import minimize_scalar
                        cfit = minimize_scalar(lambda c: np.linalg.norm(Pd - poly(c)), bounds=(0.5 * lo, 1.5 * hi), method='bounded',
                                               options=dict(xatol=1e-14)).x
                        if deg == 1:
                            KT = K @ T
                            cfit = (np.vdot(KT, T - Pd) / np.vdot(KT, KT)).real
                    err = np.abs(Pd - poly(cfit)).max()
                    ctx.count('polynomial:%s/%s/deg%d/%s' % (sm[0], wt if sm[0] == 'jacobi' else '-', deg, 'bsr' if bsz > 1 else 'csr'))
                    if _nn(err) > 1e-8 * (1 + np.abs(Pd).max()) or not (lo * (1 - 1e-9) <= cfit <= hi * (1 + 1e-9)):
                        ctx.fail('smoothing/%s/not-polynomial' % sm[0],
                                 'P is not (I - c K)^%d T with c in [omega/rho, omega/(0.85 rho)]: best c = %.6g (allowed %.6g..%.6g), |P - poly| = %.3g'
                                 % (deg, cfit, lo, hi, err), case)


def direct_smoother_calls(ctx):
    """the prolongation smoothers called directly: a NONSYMMETRIC smoothing matrix (row sums and column sums of |S| differ) for
    the 'local' weighting, and the legacy SciPy matrix classes"""
    import pyamg
    from pyamg.gallery import poisson
    from pyamg.aggregation.smooth import jacobi_prolongation_smoother, richardson_prolongation_smoother
    from pyamg.strength import symmetric_strength_of_connection
    rng = ctx.sub('direct')
    A = sp.csr_array(poisson((6, 5), format='csr'))
    n = A.shape[0]
    np.random.seed(ctx.seed)
    ml = pyamg.smoothed_aggregation_solver(A, max_coarse=4, keep=True, smooth=None)
    T = sp.csr_array(ml.levels[0].P)
    C = sp.csr_array(symmetric_strength_of_connection(A, 0.25))
    B = np.asarray(ml.levels[1].B)          # (the COARSE candidates: T @ B reproduces the fine ones)
    dsc = np.array([1.0 + 2.0 * rng.random() for _ in range(n)])
    for tag, S in (('row-scaled', sp.csr_array(sp.diags_array(dsc) @ A)), ('column-scaled', sp.csr_array(A @ sp.diags_array(dsc))),
                   ('upwind', sp.csr_array(A + 0.4 * sp.diags_array(np.ones(n - 1), offsets=1, shape=(n, n))))):
        Sd, Td = S.toarray(), T.toarray()
        for deg in (1, 2):
            for om in (4.0 / 3.0, 1.0):
                case = dict(direct='jacobi/local', smoothing_matrix=tag, degree=deg, omega=om)
                ctx.mark(case)
                try:
                    P = sp.csr_array(jacobi_prolongation_smoother(S, T, C, B, omega=om, degree=deg, weighting='local')).toarray()
                except Exception as e:   # noqa
                    ctx.fail('smoothing/jacobi/local/raises', repr(e), case)
                    continue
                ctx.case(('direct', 'jacobi-local', tag, deg, om), True)
                ctx.count('direct:jacobi/local')
                K = Sd / np.abs(Sd).sum(1)[:, None]            # Gershgorin weights: ROW sums of |S|
                want = np.linalg.matrix_power(np.eye(n) - om * K, deg) @ Td
                if _nn(np.abs(P - want).max()) > 1e-10 * (1 + np.abs(want).max()):
                    ctx.fail('smoothing/jacobi/local/not-polynomial', "weighting 'local' on a %s matrix: P differs from (I - omega Dg^-1 S)^%d T (Dg = row sums of |S|) by %.3g"
                             % (tag, deg, np.abs(P - want).max()), case)
    # legacy matrix classes: the same data as csr_matrix / bsr_matrix gives the same prolongator
    for tag, kw in (('jacobi', {}), ('jacobi/filter', {'filter_entries': True}), ('jacobi/filter/local', {'filter_entries': True, 'weighting': 'local'}),
                    ('jacobi/block', {'weighting': 'block'})):
        case = dict(direct=tag, input_class='csr_matrix')
        ctx.mark(case)
        try:
            with warnings.catch_warnings():
                warnings.simplefilter('ignore')
                # (the filtered variant works on block storage; the weights come from a randomly started spectral-radius estimate:
                # same seed for both calls)
                if kw.get('filter_entries'):
                    arr = [sp.bsr_array(M_, blocksize=(1, 1)) for M_ in (A, T, C)]
                    mat = [sp.bsr_matrix(M_, blocksize=(1, 1)) for M_ in (A, T, C)]
                else:
                    arr = [A, T, C]
                    mat = [sp.csr_matrix(M_) for M_ in (A, T, C)]
                np.random.seed(ctx.seed + 3)
                Pa = sp.csr_array(jacobi_prolongation_smoother(arr[0], arr[1], arr[2], B, **kw)).toarray()
                np.random.seed(ctx.seed + 3)
                Pm = sp.csr_array(jacobi_prolongation_smoother(mat[0], mat[1], mat[2], B, **kw)).toarray()
        except Exception as e:   # noqa
            ctx.fail('smoothing/%s/csr_matrix/raises' % tag, repr(e), case)
            continue
        ctx.case(('direct', tag, 'csr_matrix'), True)
        ctx.count('direct:legacy-class')
        if Pa.shape != Pm.shape or _nn(np.abs(Pa - Pm).max()) > 1e-12 * (1 + np.abs(Pa).max()):
            ctx.fail('smoothing/%s/csr_matrix-differs' % tag, 'csr_matrix inputs give another prolongator than csr_array inputs (max diff %.3g, nnz %d vs %d)'
                     % (np.abs(Pa - Pm).max() if Pa.shape == Pm.shape else float('nan'), np.count_nonzero(Pm), np.count_nonzero(Pa)), case)
    for tag, fsm in (('richardson', richardson_prolongation_smoother),):
        case = dict(direct=tag, input_class='csr_matrix')
        try:
            np.random.seed(ctx.seed + 3)
            Pa = sp.csr_array(fsm(A, T)).toarray()
            np.random.seed(ctx.seed + 3)
            Pm = sp.csr_array(fsm(sp.csr_matrix(A), sp.csr_matrix(T))).toarray()
            if _nn(np.abs(Pa - Pm).max()) > 1e-12 * (1 + np.abs(Pa).max()):
                ctx.fail('smoothing/%s/csr_matrix-differs' % tag, 'max diff %.3g' % np.abs(Pa - Pm).max(), case)
        except Exception as e:   # noqa
            ctx.fail('smoothing/%s/csr_matrix/raises' % tag, repr(e), case)


def constraint_projection(ctx):
    """hypothesis and conclusion of C10_constrained_update_preserves_candidates on the working tree: compute_BtBinv returns the
    inverse of the local Gram matrix B_i^H B_i (rows whose pattern supports the candidates), and satisfy_constraints turns
    any direction U into one with U B = 0 on those rows, touching nothing outside the pattern and leaving a direction that already
    satisfies the constraints alone."""
    import warnings
    from pyamg.util.utils import compute_BtBinv
    from pyamg.aggregation.smooth import satisfy_constraints
    rng = ctx.sub('constraints')
    for rep in range(30 if not ctx.thorough else 200):
        bs = rng.choice([1, 1, 2, 3])
        nbr, nbc = rng.choice([3, 5, 8]), rng.choice([2, 3, 4])
        K = rng.choice([1, 2, 3, 4]) if bs > 1 else rng.choice([1, 2])
        cplx = rep % 4 == 3
        pat = np.array([[1 if (rng.random() < 0.6 or j == i % nbc) else 0 for j in range(nbc)] for i in range(nbr)])
        vals = np.array([[rng.choice([1.0, -2.0, 0.5, 3.0, -0.25]) for _ in range(nbc * bs)] for _ in range(nbr * bs)]) * np.kron(pat, np.ones((bs, bs)))
        if cplx:
            vals = vals * (1 + 0.5j)
        U = sp.bsr_array(sp.csr_array(vals), blocksize=(bs, bs))
        if U.nnz == 0:
            continue
        B = np.array([[rng.choice([1.0, 2.0, -1.0, 0.5, 3.0]) + 0.25 * c_ + 0.125 * (r_ % 3) for c_ in range(K)] for r_ in range(nbc * bs)])
        if cplx:
            B = B * (1 + 0.0j) + 1j * np.array([[0.5 * ((r_ + c_) % 2) for c_ in range(K)] for r_ in range(nbc * bs)])
        case = dict(probe='satisfy_constraints', blocksize=bs, pattern=pat.tolist(), U=[[complex(v) for v in r] for r in vals.tolist()],
                    B=[[complex(v) for v in r] for r in B.tolist()])
        ctx.mark(case)
        try:
            with warnings.catch_warnings():
                warnings.simplefilter('ignore')
                BtBinv = compute_BtBinv(B, U)
                U0 = U.copy()
                U1 = satisfy_constraints(U.copy(), B, BtBinv)
        except Exception as e:   # noqa
            ctx.fail('satisfy_constraints/raises', repr(e), case)
            continue
        ctx.case(('constraints', rep, bs, K, cplx), True)
        ctx.count('oracle:satisfy_constraints')
        U1d, U0d = U1.toarray(), U0.toarray()
        okrows = []
        for i in range(nbr):
            cols = [j * bs + t for j in np.where(pat[i] == 1)[0] for t in range(bs)]
            Bi = B[cols]
            G = Bi.conj().T @ Bi
            if len(cols) >= K and np.linalg.cond(G) < 1e8:
                okrows.append(i)
                if _nn(np.abs(BtBinv[i] @ G - np.eye(K)).max()) > 1e-8 * np.linalg.cond(G):
                    ctx.fail('compute_BtBinv/not-the-inverse-of-the-local-gram-matrix', 'block row %d: |X G - I| = %.3g' % (i, np.abs(BtBinv[i] @ G - np.eye(K)).max()), case)
                    break
        if np.any((U1d != 0) & (np.kron(pat, np.ones((bs, bs))) == 0)):
            ctx.fail('satisfy_constraints/outside-pattern', 'entries outside the sparsity pattern of U', case)
        rows_ = [i * bs + t for i in okrows for t in range(bs)]
        if rows_:
            scale = 1 + np.abs(U0d).max() * np.abs(B).max()
            if _nn(np.abs((U1d @ B)[rows_]).max()) > 1e-9 * scale * max(np.linalg.cond(B[[j * bs + t for j in np.where(pat[i] == 1)[0] for t in range(bs)]].conj().T @ B[[j * bs + t for j in np.where(pat[i] == 1)[0] for t in range(bs)]]) for i in okrows):
                ctx.fail('satisfy_constraints/UB-not-zero', '|U B| = %.3g on rows whose pattern supports the constraints' % np.abs((U1d @ B)[rows_]).max(), case)
            # a direction that satisfies the constraints is a fixed point
            try:
                with warnings.catch_warnings():
                    warnings.simplefilter('ignore')
                    U2 = satisfy_constraints(U1.copy(), B, BtBinv).toarray()
                if _nn(np.abs(U2 - U1d)[rows_].max()) > 1e-8 * scale * 1e2:
                    ctx.fail('satisfy_constraints/not-idempotent', 'a second projection moves the direction by %.3g' % np.abs(U2 - U1d)[rows_].max(), case)
            except Exception as e:   # noqa
                ctx.fail('satisfy_constraints/raises', repr(e), case)


def search(ctx):
    run(ctx)


def replay(ctx, data):
    run(ctx)
