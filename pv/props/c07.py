"""C07 -- Krylov iterates are the optimal elements of the Krylov space."""
import os
import warnings

import numpy as np
import scipy.sparse as sp

from .. import coqrun as cq
from .. import gen
from .c06 import systems

def _nn(v):
    """NaN counts as 'exceeds every bound' in the oracle comparisons"""
    return np.inf if np.isnan(v) else v


TECHNIQUE = 'Coq/mathcomp proofs: CG invariants + optimality, CR / CGNR / CGNE loops simulate CG in another inner product (hence residual- resp. error-norm optimal), GMRES least-squares lemma, exact line search; exact-Q loop models vs implementation; dense Krylov-space minimiser oracle'
LEVEL_TEXT = ('Kernel-checked theorems (Props/C07.v, mathcomp, any real field): for the CG recurrences as written in '
              'pyamg/krylov/_cg.py (no breakdown before step k) the recursive residual is the true residual, residuals are '
              'mutually orthogonal, directions A-conjugate; the k-th iterate minimises the energy norm of the error over '
              'x0 + span(p_0..p_{k-1}); the energy error is monotone.  The loops of _cr.py, _cgnr.py and _cgne.py (no '
              'preconditioner, ANY schedule of recomputed/updated residuals) are proved to be the same recurrences in the '
              'forms (B,K) = (A,A), (I,A^T A), (I,A A^T) (simulation lemmas), so their k-th iterates minimise the residual '
              '2-norm (CR, CGNR) resp. the error 2-norm (CGNE) over the Krylov space and those norms are monotone.  GMRES: '
              'given the Arnoldi relation with an orthonormal basis and an orthogonal triangularisation of the Hessenberg '
              'matrix, the iterate is the residual minimiser over x0 + range(V_k) and its residual norm is the last '
              'rotated right-hand-side entry (hypotheses = textbook invariants, not derived from the loops).  The exact '
              'line-search step minimises ||u - c v||_B in any symmetric PSD form (steepest descent: B = A; minimal residual: '
              'B = I).  Six loop models (CG, SD, MR, CR, CGNR, CGNE, each with left preconditioner and the code\'s '
              'recompute schedule) evaluated exactly over Q must reproduce the implementation\'s iterates to 2^-26 / 2^-22; for all methods '
              '(incl. GMRES mgs/householder, FGMRES, BiCGStab residual history) a dense least-squares minimiser over '
              'an orthonormal Krylov basis decides optimality, monotonicity and termination in <= n steps.')
LEVEL_NOTE = ('Real case, no preconditioner: CG, CR, CGNR, CGNE optimality proved for the loops as written; GMRES optimality '
              'proved from the Arnoldi/Givens invariants (the Arnoldi loops themselves, Householder variant and FGMRES are '
              'decided by the dense oracle); preconditioned variants: exact-Q loop correspondence + dense oracle.  "To rounding": '
              'tolerance 1e-8 * cond on well-conditioned systems (cond <= 1e3).')
RULE = ('HPD (cg, cr, sd, mr) and general nonsingular (gmres*, fgmres, cgnr, cgne) real/complex systems n=2..8 with cond <= 1e3, '
        'identity and SPD diagonal preconditioners, random x0, every k <= n: exact-Q model iterates vs implementation; dense '
        'minimiser over the k-dimensional (preconditioned) Krylov space; monotone norms; n-step termination.  Non-trivial: k >= 1.')
RULE += (' '
         'Operator storage alternates dense / CSR; preconditioned CGNR / CGNE checked against their preconditioned Krylov spaces.')
THOROUGH_ROUNDS = 2
TRUSTED = ['NumPy lstsq / QR on the oracle side']
PARTIAL = ['GMRES: Arnoldi relation / orthonormality / triangularisation are hypotheses of the theorem (loops not modelled); Householder GMRES, FGMRES: oracle only',
           'preconditioned CG/CR/CGNR/CGNE optimality: exact-Q loop models + oracle (theorems are for M = I)', 'complex case: oracle only']
HEADER = ('From Coq Require Import ZArith List QArith.\nImport ListNotations.\n'
          'Require Import PV.Base.Ops PV.Model.CycleRun PV.Model.KrylovRec.\n')


def qmat(M):
    return cq.lst([cq.ql(row) for row in np.asarray(M).tolist()])


def iterates_of(fn, A, b, x0, k, M=None, **kw):
    xs = []
    with warnings.catch_warnings():
        warnings.simplefilter('ignore')
        fn(A, b, x0=x0, tol=1e-300, maxiter=k, M=M, callback=lambda v: xs.append(np.array(v, copy=True)), **kw)
    return xs


def krylov_basis(Bop, v, k):
    """orthonormal basis of span{v, B v, ..., B^{k-1} v}"""
    K = np.column_stack([np.linalg.matrix_power(Bop, j) @ v for j in range(k)])
    Q, R = np.linalg.qr(K)
    rank = int(np.sum(np.abs(np.diag(R)) > 1e-10 * max(abs(R[0, 0]), 1e-300)))
    return Q[:, :rank]


def best_in(x0, Qb, objective_mat, target):
    """min over y of || objective_mat (x0 + Qb y) - target ||_2 ; returns the minimiser x"""
    y, *_ = np.linalg.lstsq(objective_mat @ Qb, target - objective_mat @ x0, rcond=None)
    return x0 + Qb @ y


def run(ctx):
    from pyamg import krylov
    rng = ctx.sub('sys')
    cases, meta = [], []
    nsys = 8 if not ctx.thorough else 50
    if ctx.search:
        nsys = 30
    for si in range(nsys):
        n = rng.choice([2, 3, 4, 6, 8])
        for cplx in (False, True) if si % 3 == 0 else (False,):
            Ah, b = systems(rng, n, cplx, True)
            Ag, _ = systems(rng, n, cplx, False)
            if np.linalg.cond(Ah) > 1e3 or np.linalg.cond(Ag) > 1e2:
                continue
            x0 = np.array([rng.uniform(-1, 1) for _ in range(n)]).astype(b.dtype)
            if si % 4 == 1:
                # zero guess and an exact zero in the leading entry of the initial residual
                x0 = np.zeros_like(b)
                b = b.copy()
                b[0] = 0.0
            useM = rng.random() < 0.5 or si < 2
            Md = np.diag([rng.choice([0.5, 1.0, 2.0, 0.25]) for _ in range(n)]) if useM else None
            Mi = Md if Md is not None else np.eye(n)
            base = dict(n=n, complex=cplx, M=None if Md is None else np.diag(Md).tolist(),
                        A=[[complex(v) for v in r] for r in Ah], Ag=[[complex(v) for v in r] for r in Ag],
                        b=[complex(v) for v in b], x0=[complex(v) for v in x0])
            xs_h = np.linalg.solve(Ah, b)
            xs_g = np.linalg.solve(Ag, b)
            tolc = 1e-8 * max(np.linalg.cond(Ah), np.linalg.cond(Ag))
            # ---------- exact-Q recurrences (real data, few-bit dyadic inputs so that rationals stay small)
            if not cplx and n <= 5:
                bq = np.array([rng.choice([-1, -0.5, 0.25, 0.5, 1, 2]) for _ in range(n)])
                xq = np.array([rng.choice([-1, 0, 0.5, 1]) for _ in range(n)])
                for mid, name in ((0, 'cg'), (1, 'steepest_descent'), (2, 'minimal_residual')):
                    k = min(n, 3)
                    its = iterates_of(getattr(krylov, name), Ah, bq, xq, k, Md)
                    if len(its) != k:
                        continue
                    cases.append('(%d%%nat, %s, %s, %s, %s, %s, %s)' % (
                        mid, qmat(Ah), qmat(Mi), cq.ql(bq), cq.ql(xq), cq.q(2.0 ** -26), cq.lst([cq.ql(v) for v in its])))
                    meta.append((dict(base, solver=name, k=k, b=bq.tolist(), x0=xq.tolist()), [v.tolist() for v in its]))
                    ctx.case((name, 'model', si), True)
                    ctx.count('model:' + name)
                # CR (HPD system), CGNR and CGNE (general system) as their loops are written, with the preconditioner
                # (matrix entries rounded to multiples of 1/32 so that the exact rationals stay small)
                Ahq, Agq = np.round(Ah * 32) / 32, np.round(Ag * 32) / 32
                for mid, name, Asys in ((3, 'cr', Ahq), (4, 'cgnr', Agq), (5, 'cgne', Agq)):
                    if np.linalg.cond(Asys) >= 30 or (name == 'cr' and np.min(np.linalg.eigvalsh(Ahq)) <= 0):
                        continue
                    k = min(n, 3)
                    its = iterates_of(getattr(krylov, name), Asys, bq, xq, k, Md)
                    if len(its) != k:
                        continue
                    cases.append('(%d%%nat, %s, %s, %s, %s, %s, %s)' % (
                        mid, qmat(Asys), qmat(Mi), cq.ql(bq), cq.ql(xq), cq.q(2.0 ** -22), cq.lst([cq.ql(v) for v in its])))
                    meta.append((dict(base, solver=name, k=k, b=bq.tolist(), x0=xq.tolist()), [v.tolist() for v in its]))
                    ctx.case((name, 'model', si), True)
                    ctx.count('model:' + name + '-loop')
                # CGNR is CG on the normal equations (unpreconditioned)
                if np.linalg.cond(Ag) < 30:
                    its = iterates_of(krylov.cgnr, Ag, bq, xq, min(n, 2))
                    if len(its) == min(n, 2):
                        cases.append('(0%%nat, %s, %s, %s, %s, %s, %s)' % (
                            qmat(Ag.T @ Ag), qmat(np.eye(n)), cq.ql(Ag.T @ bq), cq.ql(xq), cq.q(2.0 ** -22), cq.lst([cq.ql(v) for v in its])))
                        meta.append((dict(base, solver='cgnr-as-cg-on-normal-equations', b=bq.tolist(), x0=xq.tolist()), [v.tolist() for v in its]))
                        ctx.count('model:cgnr')
                        ctx.case(('cgnr', 'model', si), True)
            # ---------- dense optimality oracle
            for name in ('cg', 'cr', 'steepest_descent', 'minimal_residual', 'cgnr', 'cgne', 'gmres_mgs', 'gmres_householder', 'fgmres', 'bicgstab'):
                fn = getattr(krylov, name)
                hpd = name in ('cg', 'cr', 'steepest_descent', 'minimal_residual')
                A = Ah if hpd else Ag
                xs = xs_h if hpd else xs_g
                M = Md if name != 'bicgstab' else None
                precond_tag = '/preconditioned' if (name == 'cr' and M is not None) else ''
                Mx = M if M is not None else np.eye(n)
                case = dict(base, solver=name)
                ctx.mark(case)
                kw = {}
                prev = None
                r0 = b - A @ x0
                # storage of the operator alternates between a dense array and CSR (the solvers take their adjoints /
                # products through different code paths)
                sparse_in = (si + len(name)) % 2 == 1
                Aarg = sp.csr_array(A) if sparse_in else A
                Marg = sp.csr_array(M) if (sparse_in and M is not None) else M
                case = dict(case, storage='csr' if sparse_in else 'dense')
                if M is not None and name in ('cg', 'cr', 'steepest_descent') and (si + len(name)) % 3 == 2:
                    # the preconditioner as a LinearOperator that hands back ONE work array on every call (the result of an
                    # earlier application is only good until the next one; cg copies what it keeps -- minimal_residual does not and is left out:
                    # DESIGN 8.4, observation O5)
                    from scipy.sparse.linalg import LinearOperator
                    wbuf = np.zeros(n, dtype=np.result_type(M.dtype, b.dtype))

                    def mv(v, M_=M, wbuf=wbuf):
                        wbuf[:] = M_ @ np.ravel(v)
                        return wbuf
                    Marg = LinearOperator((n, n), matvec=mv, dtype=wbuf.dtype)
                    case = dict(case, preconditioner='LinearOperator with a reused work vector')
                for k in range(1, n + 1):
                    if name in ('gmres_mgs', 'gmres_householder', 'fgmres'):
                        with warnings.catch_warnings():
                            warnings.simplefilter('ignore')
                            xk, _ = fn(Aarg, b, x0=x0, tol=1e-300, maxiter=k, M=Marg)
                    else:
                        its = iterates_of(fn, Aarg, b, x0, k, Marg, **kw)
                        if len(its) < k:
                            break              # converged exactly / stopped early
                        xk = its[k - 1]
                    if not np.all(np.isfinite(xk)):
                        ctx.fail(name + '/non-finite', 'iterate %d is not finite' % k, dict(case, k=k))
                        break
                    ctx.case((name, si, cplx, k), True, sample=dict(solver=name, n=n, k=k) if len(ctx.samples) < 3 else None)
                    ctx.count('oracle:' + name)
                    e = xs - xk
                    if name == 'cg':
                        # energy-norm minimiser over x0 + K_k(MA, M r0)
                        Qb = krylov_basis(Mx @ A, Mx @ r0, k)
                        w, V = np.linalg.eigh(A)
                        Ah_half = (V * np.sqrt(w)) @ V.conj().T
                        xb = best_in(x0, Qb, Ah_half, Ah_half @ xs)
                        val, best = np.sqrt(abs(np.vdot(e, A @ e))), np.sqrt(abs(np.vdot(xs - xb, A @ (xs - xb))))
                    elif name in ('gmres_mgs', 'gmres_householder'):
                        Qb = krylov_basis(Mx @ A, Mx @ r0, k)
                        xb = best_in(x0, Qb, Mx @ A, Mx @ b)
                        val, best = np.linalg.norm(Mx @ (b - A @ xk)), np.linalg.norm(Mx @ (b - A @ xb))
                    elif name == 'fgmres':
                        Qb = Mx @ krylov_basis(A @ Mx, r0, k)
                        xb = best_in(x0, np.linalg.qr(Qb)[0], A, b)
                        val, best = np.linalg.norm(b - A @ xk), np.linalg.norm(b - A @ xb)
                    elif name == 'cr':
                        Qb = krylov_basis(Mx @ A, Mx @ r0, k)
                        # CR minimises ||M^{1/2} r|| ; with diagonal SPD M
                        Mh = np.sqrt(Mx)
                        xb = best_in(x0, Qb, Mh @ A, Mh @ b)
                        val, best = np.linalg.norm(Mh @ (b - A @ xk)), np.linalg.norm(Mh @ (b - A @ xb))
                    elif name == 'cgnr':
                        # CG on A^H A x = A^H b with preconditioner M: residual minimiser over x0 + K_k(M A^H A, M A^H r0)
                        Qb = krylov_basis(Mx @ A.conj().T @ A, Mx @ A.conj().T @ r0, k)
                        xb = best_in(x0, Qb, A, b)
                        val, best = np.linalg.norm(b - A @ xk), np.linalg.norm(b - A @ xb)
                    elif name == 'cgne':
                        # CG on A A^H y = b with preconditioner M, x = A^H y: error minimiser over x0 + A^H K_k(M A A^H, M r0)
                        Qb = A.conj().T @ krylov_basis(Mx @ A @ A.conj().T, Mx @ r0, k)
                        xb = best_in(x0, np.linalg.qr(Qb)[0], np.eye(n), xs)
                        val, best = np.linalg.norm(xs - xk), np.linalg.norm(xs - xb)
                    elif name == 'steepest_descent':
                        xprev = x0 if k == 1 else prev
                        z = Mx @ (b - A @ xprev)
                        cs = np.vdot(z, b - A @ xprev) / np.vdot(z, A @ z)
                        xb = xprev + cs * z
                        val, best = np.sqrt(abs(np.vdot(e, A @ e))), np.sqrt(abs(np.vdot(xs - xb, A @ (xs - xb))))
                    elif name == 'minimal_residual':
                        xprev = x0 if k == 1 else prev
                        z = Mx @ (b - A @ xprev)
                        p = Mx @ (A @ z)
                        cs = np.vdot(p, z) / np.vdot(p, p)
                        xb = xprev + cs * z
                        val, best = np.linalg.norm(Mx @ (b - A @ xk)), np.linalg.norm(Mx @ (b - A @ xb))
                    else:   # bicgstab: no optimality claimed; only finite and finally exact
                        val, best = 0.0, 0.0
                    kappa = np.linalg.cond(A) ** (2 if name in ('cgnr', 'cgne') else 1)
                    ref = max(np.linalg.norm(r0), np.linalg.norm(b))
                    # early iterates: tight (rounding * condition); late iterates: finite-precision CG-type
                    # recurrences lose orthogonality, so "to rounding" is relative to the initial norm
                    slack = 1e-10 * kappa * ref if k <= max(1, n // 2) else 1e-5 * ref
                    if val > best + slack + 1e-9 * best:
                        ctx.fail(name + precond_tag + '/not-optimal', 'iterate %d: norm %.10g but the minimiser over the Krylov space attains %.10g'
                                 % (k, val, best), dict(case, k=k))
                        break
                    prev = xk
                else:
                    # an n-by-n system is solved in at most n steps (to rounding)
                    if name != 'bicgstab' and name not in ('steepest_descent', 'minimal_residual'):
                        kappa = np.linalg.cond(A) ** (2 if name in ('cgnr', 'cgne') else 1)
                        if _nn(np.linalg.norm(xs - xk)) > 1e-5 * np.linalg.cond(A) * (1 + np.linalg.norm(xs)):
                            ctx.fail(name + '/not-solved-in-n-steps', '|x_n - x*| = %.3g' % np.linalg.norm(xs - xk), case)
    # ---------- GMRES family with restarts and with a callback: after every restart cycle of m inner steps the iterate is
    # the minimiser over (previous iterate) + (Krylov space of that cycle); supplying a callback changes nothing
    rg = ctx.sub('restart')
    for t in range(10 if not ctx.thorough else 60):
        n = rg.choice([4, 6, 8])
        cplx = t % 4 == 3
        Ag, b = systems(rg, n, cplx, False)
        if np.linalg.cond(Ag) > 1e2:
            continue
        x0 = np.array([rg.uniform(-1, 1) for _ in range(n)]).astype(b.dtype)
        Md = np.diag([rg.choice([0.5, 1.0, 2.0, 0.25]) for _ in range(n)]) if t % 2 else None
        Mx = Md if Md is not None else np.eye(n)
        m = rg.choice([2, 3, 4] if n >= 6 else [2, 3])
        for name in ('gmres_mgs', 'gmres_householder', 'fgmres'):
            fn = getattr(krylov, name)
            case = dict(solver=name, n=n, complex=cplx, restart=m, M=None if Md is None else np.diag(Md).tolist(),
                        A=[[complex(v) for v in r] for r in Ag], b=[complex(v) for v in b], x0=[complex(v) for v in x0])
            ctx.mark(case)
            xref = x0.copy()
            for cyc in (1, 2, 3):
                r_ = b - Ag @ xref
                if name == 'fgmres':
                    Qb = np.linalg.qr(Mx @ krylov_basis(Ag @ Mx, r_, m))[0]
                    xref = best_in(xref, Qb, Ag, b)
                else:
                    Qb = krylov_basis(Mx @ Ag, Mx @ r_, m)
                    xref = best_in(xref, Qb, Mx @ Ag, Mx @ b)
                for with_cb in (False, True):
                    seen = []
                    try:
                        with warnings.catch_warnings():
                            warnings.simplefilter('ignore')
                            xk, _ = fn(Ag, b, x0=x0.copy(), tol=1e-300, restart=m, maxiter=cyc, M=Md,
                                       **(dict(callback=lambda v: seen.append(1)) if with_cb else {}))
                    except Exception as e:   # noqa
                        ctx.fail(name + '/restarted/raises', repr(e), dict(case, cycles=cyc, callback=with_cb))
                        continue
                    ctx.case((name, 'restart', t, cyc, with_cb), True)
                    ctx.count('oracle:%s-restarted%s' % (name, '-callback' if with_cb else ''))
                    nrm = (lambda v: np.linalg.norm(b - Ag @ v)) if name == 'fgmres' else (lambda v: np.linalg.norm(Mx @ (b - Ag @ v)))
                    val, best = nrm(xk), nrm(xref)
                    if not np.all(np.isfinite(xk)) or val > best + 1e-8 * np.linalg.cond(Ag) * max(nrm(x0), np.linalg.norm(b)):
                        ctx.fail(name + '/restarted/not-optimal', 'after %d restart cycles of %d steps%s: norm %.10g, cycle-wise minimiser %.10g'
                                 % (cyc, m, ' (callback supplied)' if with_cb else '', val, best), dict(case, cycles=cyc, callback=with_cb))
                        break
    # ---------- single precision (float32 / complex64 systems follow the double-precision iterates to single accuracy), and
    # double-precision solves AFTER single-precision ones in the same process (no handle or work space may be shared)
    rp = ctx.sub('precision')
    for t in range(4 if not ctx.thorough else 20):
        n = rp.choice([4, 6])
        for cplx in (False, True):
            Ah, bh = systems(rp, n, cplx, True)
            Agn, bgn = systems(rp, n, cplx, False)
            if np.linalg.cond(Ah) > 50 or np.linalg.cond(Agn) > 50:
                continue
            sdt = np.complex64 if cplx else np.float32
            for name in ('cg', 'steepest_descent', 'minimal_residual', 'cr', 'cgnr', 'cgne', 'gmres_mgs', 'gmres_householder', 'fgmres', 'bicgstab'):
                A_, b_ = (Ah, bh) if name in ('cg', 'steepest_descent', 'minimal_residual', 'cr') else (Agn, bgn)
                x0 = np.array([rp.uniform(-1, 1) for _ in range(n)]).astype(b_.dtype)
                fn = getattr(krylov, name)
                case = dict(solver=name, n=n, complex=cplx, A=[[complex(v) for v in r] for r in A_], b=[complex(v) for v in b_], x0=[complex(v) for v in x0])
                ctx.mark(case)
                try:
                    ref = iterates_of(fn, A_, b_, x0.copy(), 3)
                    low = iterates_of(fn, A_.astype(sdt), b_.astype(sdt), x0.astype(sdt), 3)
                    again = iterates_of(fn, A_, b_, x0.copy(), 3)
                except Exception as e:   # noqa
                    ctx.fail(name + '/precision/raises', repr(e), case)
                    continue
                ctx.case((name, 'precision', t, cplx), True)
                ctx.count('oracle:%s-precision' % name)
                m_ = min(len(ref), len(low))
                if m_ and any(_nn(np.linalg.norm(l_ - r_)) > 2e-3 * np.linalg.cond(A_) * (1 + np.linalg.norm(r_)) for l_, r_ in zip(low[:m_], ref[:m_])):
                    dev = max(_nn(np.linalg.norm(l_ - r_)) for l_, r_ in zip(low[:m_], ref[:m_]))
                    ctx.fail(name + '/single-precision', '%s system: iterates deviate from the double-precision ones by %.3g' % (np.dtype(sdt).name, dev), dict(case, dtype=np.dtype(sdt).name))
                if len(again) != len(ref) or any(_nn(np.linalg.norm(a_ - r_)) > 1e-12 * (1 + np.linalg.norm(r_)) for a_, r_ in zip(again, ref)):
                    dev = max([_nn(np.linalg.norm(a_ - r_)) for a_, r_ in zip(again, ref)] + [0.0])
                    ctx.fail(name + '/double-after-single', 'a double-precision solve repeated after a %s solve differs from the first one by %.3g' % (np.dtype(sdt).name, dev), case)
    # ---------- the same system in other units: every method is invariant under (A, b) -> (s A, s b); with s a power of two
    # the iterates are the same numbers (no absolute threshold or guard may enter the step lengths)
    rs_ = ctx.sub('scaled')
    for t in range(6 if not ctx.thorough else 30):
        n = rs_.choice([4, 6])
        Ah, bh = systems(rs_, n, t % 3 == 2, True)
        Agn, bgn = systems(rs_, n, t % 3 == 2, False)
        if np.linalg.cond(Ah) > 1e3 or np.linalg.cond(Agn) > 1e2:
            continue
        for name in ('cg', 'steepest_descent', 'minimal_residual', 'cr', 'cgnr', 'cgne', 'gmres_mgs', 'gmres_householder', 'fgmres', 'bicgstab'):
            A_, b_ = (Ah, bh) if name in ('cg', 'steepest_descent', 'minimal_residual', 'cr') else (Agn, bgn)
            x0 = np.array([rs_.uniform(-1, 1) for _ in range(n)]).astype(b_.dtype)
            fn = getattr(krylov, name)
            try:
                ref = iterates_of(fn, A_, b_, x0.copy(), 3)
            except Exception as e:   # noqa
                ctx.fail(name + '/scaled/raises', repr(e), dict(solver=name, scale=1))
                continue
            for ex in (-40, -20, 30):
                sc = 2.0 ** ex
                case = dict(solver=name, n=n, scale='2^%d' % ex, A=[[complex(v) for v in r] for r in A_], b=[complex(v) for v in b_],
                            x0=[complex(v) for v in x0])
                ctx.mark(case)
                try:
                    got = iterates_of(fn, A_ * sc, b_ * sc, x0.copy(), 3)
                except Exception as e:   # noqa
                    ctx.fail(name + '/scaled/raises', repr(e), case)
                    continue
                ctx.case((name, 'scaled', t, ex), True)
                ctx.count('oracle:%s-scaled' % name)
                if len(got) != len(ref) or any(_nn(np.linalg.norm(g - r)) > 1e-9 * (1 + np.linalg.norm(r)) for g, r in zip(got, ref)):
                    dev = max([_nn(np.linalg.norm(g - r)) for g, r in zip(got, ref)] + [0.0])
                    ctx.fail(name + '/not-scale-invariant', 'iterates of (sA, sb), s = 2^%d, differ from those of (A, b): %d vs %d iterates, max deviation %.3g'
                             % (ex, len(got), len(ref), dev), case)
    # ---------- identity plus low rank: GMRES finds the solution after (rank + 1) steps -- a "lucky breakdown"; the steps
    # after it (and the re-orthogonalisation sweep, which only then has something to do) must leave it alone
    rl = ctx.sub('lowrank')
    for t in range(6 if not ctx.thorough else 30):
        n = rl.choice([6, 8, 10])
        rank = rl.choice([1, 2])
        U = np.array([[rl.uniform(-1, 1) for _ in range(rank)] for _ in range(n)])
        W = np.array([[rl.uniform(-1, 1) for _ in range(rank)] for _ in range(n)])
        Al = np.eye(n) + U @ W.T
        if np.linalg.cond(Al) > 1e3:
            continue
        bl_ = np.array([rl.uniform(-1, 1) for _ in range(n)])
        for name, kw in (('gmres_mgs', {}), ('gmres_mgs', {'reorth': True}), ('gmres_householder', {}), ('fgmres', {})):
            fn = getattr(krylov, name)
            for k in (rank + 1, rank + 2, n):
                case = dict(solver=name, options=kw, n=n, rank=rank, steps=k, A=Al.tolist(), b=bl_.tolist())
                ctx.mark(case)
                try:
                    with warnings.catch_warnings():
                        warnings.simplefilter('ignore')
                        xk, _ = fn(Al, bl_, x0=np.zeros(n), tol=1e-300, maxiter=k, **kw)
                except Exception as e:   # noqa
                    ctx.fail(name + '/low-rank/raises', repr(e), case)
                    continue
                ctx.case((name, 'lowrank', t, k, repr(kw)), True)
                ctx.count('oracle:%s-lowrank' % name)
                rr = np.linalg.norm(bl_ - Al @ xk) if np.all(np.isfinite(xk)) else float('inf')
                if not rr <= 1e-8 * np.linalg.cond(Al) * np.linalg.norm(bl_):
                    ctx.fail(name + '/low-rank/not-solved', 'I + rank-%d matrix, %d steps%s: |b - A x| = %.3g' % (rank, k, ' (reorth)' if kw else '', rr), case)
    # ---------- small dyadic systems for the six recurrence models (cheap exact rationals, many systems)
    rq = ctx.sub('dyadic')
    for t in range(20 if not ctx.thorough else 120):
        n = rq.choice([2, 3, 3, 4])
        Gm = np.array([[rq.choice([-1, -0.5, 0, 0, 0.5, 1]) for _ in range(n)] for _ in range(n)])
        Ahq = Gm @ Gm.T + np.eye(n) * rq.choice([1, 2])
        Agq = Gm + np.eye(n) * rq.choice([2, 3])
        if np.linalg.cond(Agq) > 30:
            continue
        bq = np.array([rq.choice([-1, -0.5, 0.25, 0.5, 1, 2]) for _ in range(n)])
        xq = np.array([rq.choice([-1, 0, 0.5, 1]) for _ in range(n)])
        Md = np.diag([rq.choice([0.5, 1.0, 2.0]) for _ in range(n)]) if t % 2 else None
        Mi = Md if Md is not None else np.eye(n)
        for mid, name, Asys in ((0, 'cg', Ahq), (1, 'steepest_descent', Ahq), (2, 'minimal_residual', Ahq),
                                (3, 'cr', Ahq), (4, 'cgnr', Agq), (5, 'cgne', Agq)):
            k = min(n, 3)
            its = iterates_of(getattr(krylov, name), Asys, bq, xq, k, Md)
            if len(its) != k:
                continue
            base = dict(n=n, A=Asys.tolist(), M=None if Md is None else np.diag(Md).tolist())
            ctx.mark(dict(base, solver=name))
            cases.append('(%d%%nat, %s, %s, %s, %s, %s, %s)' % (
                mid, qmat(Asys), qmat(Mi), cq.ql(bq), cq.ql(xq), cq.q(2.0 ** -26), cq.lst([cq.ql(v) for v in its])))
            meta.append((dict(base, solver=name, k=k, b=bq.tolist(), x0=xq.tolist()), [v.tolist() for v in its]))
            ctx.case((name, 'dyadic-model', t), True)
            ctx.count('model:' + name + '-dyadic')
    ctx.corr_relations = ['pyamg.krylov.{cg, steepest_descent, minimal_residual, cr, cgnr, cgne} iterates == KrylovRec loops over Q (2^-26 / 2^-22)',
                          'pyamg.krylov.cgnr iterates == KrylovRec.cg on the normal equations (1e-7)']
    fresh_process_order(ctx)
    bad, errs = cq.run_cases('c07', HEADER, 'caseT', 'chk', cases, shard=40)
    for e in errs:
        ctx.disagree('C07 model evaluation', None, e, None)
    for i in bad[:20]:
        case, out = meta[i]
        ctx.disagree('krylov recurrence (%s)' % case['solver'], case, 'exact recurrence differs beyond tolerance', out)


FRESH = r"""
import sys, json, warnings
import numpy as np
warnings.simplefilter('ignore')
from pyamg import krylov
rs = np.random.RandomState(5)
n = 8
G = rs.rand(n, n) - 0.5
Ah = G @ G.T + n * np.eye(n) * 0.25
Ag = G + 2.0 * np.eye(n)
b = rs.rand(n)
out = {}
first = sys.argv[1]
for name in ('cg', 'cr', 'cgnr', 'cgne', 'gmres_mgs', 'gmres_householder', 'fgmres', 'bicgstab', 'steepest_descent', 'minimal_residual'):
    fn = getattr(krylov, name)
    A = Ah if name in ('cg', 'cr', 'steepest_descent', 'minimal_residual') else Ag
    order = [np.float32, np.float64] if first == 'single' else [np.float64]
    for dt in order:
        x, info = fn(A.astype(dt), b.astype(dt), tol=1e-14, maxiter=(2 * n if name not in ('steepest_descent', 'minimal_residual') else 400))
        if dt == np.float64:
            out[name] = float(np.linalg.norm(b - A @ x) / np.linalg.norm(b))
print(json.dumps(out))
"""


def fresh_process_order(ctx):
    """in a FRESH interpreter: a double-precision solve that follows a single-precision solve of the same method reaches the
    accuracy it reaches when it comes first (nothing chosen for the first call may stick to the process)"""
    import json
    import subprocess
    from .. import core
    res = {}
    for first in ('double', 'single'):
        env = dict(os.environ, PYTHONPATH=core.REPO, PYTHONHASHSEED='0', OMP_NUM_THREADS='1')
        p_ = subprocess.run([core.PY, '-c', FRESH, first], capture_output=True, text=True, env=env, timeout=600)
        try:
            res[first] = json.loads(p_.stdout.strip().split('\n')[-1])
        except Exception:   # noqa
            ctx.fail('fresh-process/raises', 'the probe process failed: %s' % p_.stderr[-600:], dict(first=first))
            return
    for name, rd in res['double'].items():
        rs_ = res['single'].get(name)
        ctx.case(('fresh-process-order', name), True)
        ctx.count('oracle:fresh-process-order')
        if rs_ is None or not (rs_ <= max(100 * rd, 1e-11)):
            ctx.fail(name + '/double-after-single/fresh-process', 'final relative residual of the double-precision solve: %.3g when it comes first, %r after a float32 solve of the same method'
                     % (rd, rs_), dict(solver=name))


def search(ctx):
    run(ctx)


def replay(ctx, data):
    ctx.search = True
    run(ctx)
