"""C11 -- classical interpolation and ideal restriction satisfy their defining equations."""
import warnings

import numpy as np
import scipy.sparse as sp

from .. import coqrun as cq
from .. import gen

def _nn(v):
    """NaN counts as 'exceeds every bound' in the oracle comparisons"""
    return np.inf if np.isnan(v) else v


TECHNIQUE = 'Coq proof of the direct- and classical-interpolation equations (any field, every splitting) + bit-exact kernel/model correspondence + defining-equation oracle'
LEVEL_TEXT = ('Kernel-checked theorems (Props/C11.v) about the Gallina model of rs_direct_interpolation_pass2 over any '
              'field, for every matrix, strength pattern and C/F splitting: a coarse point gets an identity row, a fine '
              'point has weights exactly on its strongly connected coarse points, and on an M-matrix row with zero row sum '
              'the weights sum to one; for the model of rs_classical_interpolation_pass2 (standard and modified) coarse points get '
              'identity rows and fine points one weight per strongly connected coarse point, and for the standard variant the weights '
              'of a zero-row-sum row sum to one whenever every strong F neighbour has a nonzero row sum over the interpolatory set and '
              'the 1e-15 filter drops no nonzero entry; the model of one_point_interpolation gives coarse points an identity row and a fine '
              'point either nothing (no strongly connected coarse point) or one entry on a strongly connected coarse point of maximal '
              '|strength| (any ordered field).  The Gallina models of direct interpolation, one-point interpolation, remove_strong_FF_connections and '
              'classical interpolation (standard and modified), evaluated at PrimFloat, must reproduce bit-for-bit what the '
              'rebuilt working-tree kernels return on random M-matrices / weakly diagonally dominant matrices with arbitrary '
              '(not only library-produced) splittings; an oracle checks the defining equations on the public routines: '
              'identity rows, supports, row sums, the published direct and classical formulas, one-point and injection '
              'interpolation, and (R A)[i,j] = 0 on the F-pattern with an identity block for local AIR (degree 1, 2).')
LEVEL_NOTE = ('Modified classical interpolation row sums / formulas and the AIR local solve are decided by the oracle (the dense local solve is '
              'LAPACK).  Float behaviour through the bit-exact PrimFloat correspondence.')
RULE = ('symmetric and nonsymmetric M-matrices / weakly diagonally dominant matrices n=3..9 with dyadic or random entries, '
        'random strength subsets (theta in {0,.25,.5}) and ARBITRARY splittings; kernels direct pass2, remove_strong_FF, '
        'classical pass2 (modified on/off) == model at PrimFloat; oracle on direct / classical / one_point / injection / '
        'local_air (degree 1, 2).  Non-trivial: at least one F point with a strong C connection.')
RULE += (' '
         'Also one_point_interpolation kernel (outputs pre-filled with NaN) and its value oracle (by_val on/off); local AIR with QR and dense-GMRES local solves (with/without diagonal preconditioner), CSR and 2x2 BSR input.')
THOROUGH_ROUNDS = 8
TRUSTED = ['LAPACK local solves inside the AIR kernel', 'SciPy sparse elementwise product used to form C.multiply(A)']
PARTIAL = ['modified classical interpolation row sums and published-formula equality: correspondence + oracle, no theorem', 'AIR: the defining local equation <=> (R A) = 0 on the pattern is a theorem (C11_air_row_annihilates_its_pattern); that the kernels solve that equation is decided by the oracle']
HEADER = ('From Coq Require Import ZArith List PrimFloat.\nImport ListNotations.\n'
          'Require Import PV.Base.Ops PV.Model.InterpRun.\nOpen Scope Z_scope.\n')
I32 = np.int32


def mmatrix(rng, n, sym, rowsum0):
    W = np.zeros((n, n))
    for i in range(n):
        for j in range(n):
            if i != j and rng.random() < 0.45 and (not sym or j > i):
                W[i, j] = -rng.choice([0.25, 0.5, 1.0, 2.0, 1.5])
                if sym:
                    W[j, i] = W[i, j]
    for i in range(n):
        if not W[i].any():
            j = (i + 1) % n
            W[i, j] = -1.0
            if sym:
                W[j, i] = -1.0
    D = -W.sum(1)
    if not rowsum0:
        D = D + np.array([rng.choice([0.0, 0.5, 1.0]) for _ in range(n)])
    return W + np.diag(D)


def strength_data(A, theta, norm):
    """the C that interpolate.py hands to the kernels: pattern of the strength matrix, values of A"""
    from pyamg.strength import classical_strength_of_connection
    C = classical_strength_of_connection(A, theta=theta, norm=norm)
    C = C.copy()
    C.eliminate_zeros()
    C.data[:] = 1.0
    C = sp.csr_array(C.multiply(A))
    C.sort_indices()
    return C


def term(kind, n, A, S, spl, Pp, Pj, Px):
    return '(%d%%nat, %s, (%s, %s, %s), (%s, %s, %s), %s, (%s, %s, %s))' % (
        kind, cq.z(n), cq.zl(A.indptr), cq.zl(A.indices), cq.fll(A.data), cq.zl(S.indptr), cq.zl(S.indices), cq.fll(S.data),
        cq.zl(spl), cq.zl(Pp), cq.zl(Pj), cq.fll(Px))


def run(ctx):
    from pyamg import amg_core
    from pyamg.classical import interpolate as interp
    rng = ctx.sub('m')
    cases, meta = [], []
    nmat = 120 if not ctx.thorough else 300
    if ctx.search:
        nmat = 150
    for it in range(nmat):
        n = rng.choice([3, 4, 5, 6, 7, 9])
        sym = rng.random() < 0.5
        rowsum0 = rng.random() < 0.5
        Ad = mmatrix(rng, n, sym, rowsum0)
        if rng.random() < 0.3:      # weakly diagonally dominant with some positive couplings
            i, j = rng.randrange(n), rng.randrange(n)
            if i != j:
                Ad[i, j] = 0.25
                Ad[i, i] += 0.25
        A = sp.csr_array(Ad)
        A.sort_indices()
        A.indptr, A.indices = A.indptr.astype(I32), A.indices.astype(I32)
        theta = rng.choice([0.0, 0.25, 0.5])
        norm = rng.choice(['abs', 'min'])
        S = strength_data(A, theta, norm)
        S.indptr, S.indices = S.indptr.astype(I32), S.indices.astype(I32)
        spl = np.array([rng.choice([0, 1]) for _ in range(n)], dtype=I32)
        if not spl.any():
            spl[rng.randrange(n)] = 1
        base = dict(dense=Ad.tolist(), theta=theta, norm=norm, splitting=spl.tolist())
        ctx.mark(base)
        nontriv = any(spl[i] == 0 and any(spl[j] == 1 and j != i for j in S.indices[S.indptr[i]:S.indptr[i + 1]]) for i in range(n))
        # ---- kernels vs model (PrimFloat, bit exact)
        Pp = np.empty(n + 1, dtype=I32)
        amg_core.rs_direct_interpolation_pass1(n, S.indptr, S.indices, spl, Pp)
        Pj = np.empty(Pp[-1], dtype=I32)
        Px = np.empty(Pp[-1])
        with np.errstate(all='ignore'):
            amg_core.rs_direct_interpolation_pass2(n, A.indptr, A.indices, A.data, S.indptr, S.indices, S.data, spl, Pp, Pj, Px)
        if np.all(np.isfinite(Px)):
            cases.append(term(0, n, A, S, spl, Pp, Pj, Px))
            meta.append((dict(base, kernel='direct'), [Pp.tolist(), Pj.tolist(), Px.tolist()]))
            ctx.case(('direct', it), nontriv, sample=dict(base, kernel='direct', Px=Px.tolist()) if len(ctx.samples) < 3 and nontriv else None)
            ctx.count('kernel:direct')
        Sx2 = S.data.copy()
        amg_core.remove_strong_FF_connections(n, S.indptr, S.indices, Sx2, spl)
        cases.append(term(3, n, A, S, spl, [], [], Sx2))
        meta.append((dict(base, kernel='remove_strong_FF'), Sx2.tolist()))
        ctx.case(('ff', it), nontriv)
        ctx.count('kernel:remove_strong_FF')
        for modified in (False, True):
            S2 = S.copy()
            if modified:
                S2.data = Sx2.copy()
                S2.eliminate_zeros()
                S2.indptr, S2.indices = S2.indptr.astype(I32), S2.indices.astype(I32)
            Pp = np.empty(n + 1, dtype=I32)
            amg_core.rs_classical_interpolation_pass1(n, S2.indptr, S2.indices, spl, Pp)
            Pj = np.empty(Pp[-1], dtype=I32)
            Px = np.empty(Pp[-1])
            with np.errstate(all='ignore'):
                amg_core.rs_classical_interpolation_pass2(n, A.indptr, A.indices, A.data, S2.indptr, S2.indices, S2.data,
                                                          spl, Pp, Pj, Px, modified)
            if np.all(np.isfinite(Px)):
                cases.append(term(2 if modified else 1, n, A, S2, spl, Pp, Pj, Px))
                meta.append((dict(base, kernel='classical', modified=modified), [Pp.tolist(), Pj.tolist(), Px.tolist()]))
                ctx.case(('classical', modified, it), nontriv)
                ctx.count('kernel:classical%s' % ('-modified' if modified else ''))
        # one_point_interpolation kernel: every output slot pre-filled with NaN / -7 so that a slot the kernel does
        # not write is seen (the public routine hands it np.empty buffers)
        Pp1 = np.full(n + 1, -7, dtype=I32)
        Pj1 = np.full(n, -7, dtype=I32)
        Px1 = np.full(n, np.nan)
        amg_core.one_point_interpolation(Pp1, Pj1, Px1, S.indptr, S.indices, S.data, spl)
        nn1 = int(Pp1[-1]) if 0 <= Pp1[-1] <= n else n
        cases.append(term(4, n, A, S, spl, Pp1, Pj1[:nn1], Px1[:nn1]))
        meta.append((dict(base, kernel='one_point'), [Pp1.tolist(), Pj1.tolist(), Px1.tolist()]))
        ctx.case(('one_point', it), nontriv)
        ctx.count('kernel:one_point')
        # ---- oracle on the public routines (every third matrix with the column indices of each row in shuffled order)
        Aor = A
        if it % 3 == 1:
            Aor = gen.unsorted_copy(A, rng)
            Aor.indptr, Aor.indices = Aor.indptr.astype(I32), Aor.indices.astype(I32)
            Aor.has_sorted_indices = False
        oracle(ctx, interp, Ad, Aor, theta, norm, spl, sym, rowsum0, dict(base, unsorted_indices=(it % 3 == 1)))
    corpus(ctx, interp)
    ctx.corr_relations = ['amg_core.rs_direct_interpolation_pass1/2, remove_strong_FF_connections, rs_classical_interpolation_pass1/2, one_point_interpolation '
                          '== Interp.* at PrimFloat (bit-exact)']
    bad, errs = cq.run_cases('c11', HEADER, 'caseT', 'chk', cases, shard=60)
    for e in errs:
        ctx.disagree('C11 model evaluation', None, e, None)
    for i in bad[:20]:
        case, out = meta[i]
        ctx.disagree('interpolation kernel %s' % case.get('kernel'), case, 'Interp model differs (InterpRun.chk)', out)


def oracle(ctx, interp, Ad, A, theta, norm, spl, sym, rowsum0, base):
    from pyamg.strength import classical_strength_of_connection
    n = A.shape[0]
    C = classical_strength_of_connection(A, theta=theta, norm=norm)
    Cpat = sp.csr_array(C)
    Cpat.eliminate_zeros()
    strong = [set(int(j) for j in Cpat.indices[Cpat.indptr[i]:Cpat.indptr[i + 1]]) - {i} for i in range(n)]
    cidx = np.cumsum(spl) - 1
    for name, f in (('direct', lambda: interp.direct_interpolation(A, C, spl)),
                    ('classical', lambda: interp.classical_interpolation(A, C, spl, modified=False)),
                    ('classical/modified', lambda: interp.classical_interpolation(A, C, spl, modified=True))):
        case = dict(base, routine=name)
        try:
            with warnings.catch_warnings(), np.errstate(all='ignore'):
                warnings.simplefilter('ignore')
                P = sp.csr_array(f())
        except Exception as e:   # noqa
            ctx.fail(name + '/raises', repr(e), case)
            continue
        ctx.count('oracle:' + name)
        if P.shape != (n, int(spl.sum())):
            ctx.fail(name + '/shape', repr(P.shape), case)
            continue
        Pd = P.toarray()
        # the published classical formulas (De Sterck, Falgout, Nolting, Yang 2008, eq. (8) and its modified form (9)) on M-matrices:
        #   w_ij = -( a_ij + sum_{k in F_i^s} a_ik abar_kj / sum_{l in C_i^s} abar_kl ) / ( a_ii + sum_{weak m} a_im ),
        # where the modified variant first drops strong F-F connections without a common strong C point (they count as weak)
        if name.startswith('classical') and np.all(np.diag(Ad) > 0) and np.all(Ad - np.diag(np.diag(Ad)) <= 0):
            modified_ = name.endswith('modified')
            for i in range(n):
                if spl[i] == 1:
                    continue
                Cs_ = [j for j in sorted(strong[i]) if spl[j] == 1]
                Fs_ = [k for k in sorted(strong[i]) if spl[k] == 0]
                if modified_:
                    Fs_ = [k for k in Fs_ if any(l in strong[k] for l in Cs_)]
                if not Cs_:
                    continue
                inner_ = {k: sum(Ad[k, l] for l in Cs_) for k in Fs_}
                if any(abs(v) < 1e-9 * abs(Ad[k, k]) for k, v in inner_.items()):
                    continue          # (a strong F neighbour without coupling to C_i: the formula divides by zero, nothing is claimed)
                den_ = Ad[i, i] + sum(Ad[i, m] for m in range(n) if m != i and m not in Cs_ and m not in Fs_)
                if abs(den_) < 1e-9 * abs(Ad[i, i]):
                    continue
                ctx.count('oracle:%s/formula-rows' % name)
                for j in Cs_:
                    want_ = -(Ad[i, j] + sum(Ad[i, k] * Ad[k, j] / inner_[k] for k in Fs_)) / den_
                    got_ = Pd[i, int(cidx[j])]
                    if not abs(got_ - want_) <= 1e-9 * (1 + abs(want_)):
                        ctx.fail(name + '/formula', 'w[%d,%d] = %r, the published formula gives %r' % (i, j, float(got_), float(want_)), case)
                        break
                else:
                    continue
                break
        for i in range(n):
            row = {int(j): P.data[k] for k, j in zip(range(P.indptr[i], P.indptr[i + 1]), P.indices[P.indptr[i]:P.indptr[i + 1]])}
            if spl[i] == 1:
                if row != {int(cidx[i]): 1.0}:
                    ctx.fail(name + '/C-row-not-identity', 'row %d = %r' % (i, row), case)
                    break
            else:
                allowed = {int(cidx[j]) for j in strong[i] if spl[j] == 1}
                if not set(row) <= allowed:
                    ctx.fail(name + '/F-row-support', 'row %d has columns %s outside strong C neighbours %s' % (i, sorted(set(row) - allowed), sorted(allowed)), case)
                    break
                offd = [Ad[i, j] for j in range(n) if j != i]
                mrow = all(v <= 0 for v in offd) and Ad[i, i] > 0
                if name == 'direct' and mrow and abs(Ad[i].sum()) < 1e-12 and allowed and np.all(np.isfinite(list(row.values()))):
                    if abs(sum(row.values()) - 1) > 1e-10:
                        ctx.fail(name + '/row-sum-not-one', 'row %d sums to %r' % (i, sum(row.values())), case)
                        break
                    # published direct formula: w_ij = -(sum_k a_ik / sum_{k in C_i} a_ik) a_ij / a_ii
                    Ci = [j for j in strong[i] if spl[j] == 1]
                    alpha = sum(offd) / sum(Ad[i, j] for j in Ci)
                    for j in Ci:
                        want = -alpha * Ad[i, j] / Ad[i, i]
                        if abs(row.get(int(cidx[j]), 0.0) - want) > 1e-10 * (1 + abs(want)):
                            ctx.fail(name + '/formula', 'w[%d,%d]=%r, formula %r' % (i, j, row.get(int(cidx[j])), want), case)
                            break
                if name.startswith('classical') and mrow and abs(Ad[i].sum()) < 1e-12 and allowed and row and \
                        np.all(np.isfinite(list(row.values()))):
                    # classical interpolation also reproduces constants on such rows when every strong F
                    # neighbour shares a C point with i (otherwise the formula divides by an empty sum)
                    Fi = [k for k in strong[i] if spl[k] == 0]
                    Ci = [j for j in strong[i] if spl[j] == 1]
                    ok = all(any(Ad[k, j] != 0 for j in Ci) for k in Fi)
                    if ok and name == 'classical' and abs(sum(row.values()) - 1) > 1e-8:
                        ctx.fail(name + '/row-sum-not-one', 'row %d sums to %r' % (i, sum(row.values())), case)
                        break
                    # modified classical interpolation first drops strong F-F connections without a common C point
                    # (they are then lumped like weak ones), so constants are reproduced on every such row
                    mF = all(Ad[k, k] > 0 and all(Ad[k, j] <= 0 for j in range(n) if j != k) for k in Fi)
                    if name == 'classical/modified' and mF and abs(sum(row.values()) - 1) > 1e-8:
                        ctx.fail(name + '/row-sum-not-one', 'row %d sums to %r' % (i, sum(row.values())), case)
                        break
    # the legacy SciPy matrix classes (csr_matrix): '*' means a matrix product there, the routines must not care
    Am, Cm = sp.csr_matrix(A), sp.csr_matrix(C)
    for name, fa, fm in (('direct', lambda: interp.direct_interpolation(A, C, spl), lambda: interp.direct_interpolation(Am, Cm, spl)),
                         ('classical', lambda: interp.classical_interpolation(A, C, spl), lambda: interp.classical_interpolation(Am, Cm, spl)),
                         ('one_point', lambda: interp.one_point_interpolation(A, C, spl), lambda: interp.one_point_interpolation(Am, Cm, spl))):
        case = dict(base, routine=name, input_class='csr_matrix')
        try:
            with warnings.catch_warnings(), np.errstate(all='ignore'):
                warnings.simplefilter('ignore')
                Pa_, Pm_ = sp.csr_array(fa()).toarray(), sp.csr_array(fm()).toarray()
        except Exception as e:   # noqa
            ctx.fail(name + '/csr_matrix/raises', repr(e), case)
            continue
        ctx.count('oracle:legacy-matrix-class')
        both = np.isfinite(Pa_) & np.isfinite(Pm_)
        if Pa_.shape != Pm_.shape or not np.array_equal(np.isfinite(Pa_), np.isfinite(Pm_)) or _nn(np.abs(Pa_[both] - Pm_[both]).max(initial=0)) > 1e-12:
            ctx.fail(name + '/csr_matrix-differs', 'csr_matrix inputs give another prolongator than the same data as csr_array', case)
    # an explicit threshold (all strength matrices and thresholds): the routine then derives the strength matrix
    # itself and must ignore the one passed in -- also for theta = 0, where every connection is strong
    from pyamg.strength import classical_strength_of_connection
    Cdummy = sp.csr_array(sp.eye_array(n, format='csr'))
    for th in (0.0, 0.25):
        for name, f in (('direct', lambda C_, **kw: interp.direct_interpolation(A, C_, spl, **kw)),
                        ('classical', lambda C_, **kw: interp.classical_interpolation(A, C_, spl, modified=False, **kw)),
                        ('classical/modified', lambda C_, **kw: interp.classical_interpolation(A, C_, spl, modified=True, **kw))):
            case = dict(base, routine=name, explicit_theta=th)
            try:
                with warnings.catch_warnings(), np.errstate(all='ignore'):
                    warnings.simplefilter('ignore')
                    Cth = classical_strength_of_connection(A, theta=th, norm='min')
                    Pa = sp.csr_array(f(Cdummy, theta=th, norm='min')).toarray()
                    Pb = sp.csr_array(f(sp.csr_array(Cth))).toarray()
            except Exception as e:   # noqa
                ctx.fail(name + '/theta/raises', repr(e), case)
                continue
            ctx.count('oracle:explicit-theta')
            both = np.isfinite(Pa) & np.isfinite(Pb)
            if Pa.shape != Pb.shape or not np.array_equal(np.isfinite(Pa), np.isfinite(Pb)) or \
                    _nn(np.abs(Pa[both] - Pb[both]).max(initial=0)) > 1e-12:
                ctx.fail(name + '/theta-ignored', 'interpolation(theta=%g) differs from interpolation with the strength '
                         'matrix of that threshold' % th, case)
    # one-point and injection interpolation
    case = dict(base, routine='one_point')
    P1 = sp.csr_array(interp.one_point_interpolation(A, C, spl))
    for i in range(n):
        cols = P1.indices[P1.indptr[i]:P1.indptr[i + 1]]
        if spl[i] == 1:
            if list(cols) != [cidx[i]]:
                ctx.fail('one_point/C-row', 'row %d -> %s' % (i, list(cols)), case)
        else:
            allowed = {int(cidx[j]) for j in strong[i] if spl[j] == 1}
            if len(cols) > 1 or (len(cols) == 1 and int(cols[0]) not in allowed) or (len(cols) == 0 and allowed):
                ctx.fail('one_point/F-row', 'row %d -> %s, strong C neighbours %s' % (i, list(cols), sorted(allowed)), case)
    # values: by_val=False gives ones everywhere; by_val=True gives 1 on C rows and -a_ij of the strongest strongly
    # connected C point (largest |a_ij|) on F rows
    for by_val in (False, True):
        Pv = sp.csr_array(interp.one_point_interpolation(A, C if not by_val else A, spl, by_val=by_val)) if by_val else P1
        Pd = Pv.toarray()
        for i in range(n):
            nzc = Pv.indices[Pv.indptr[i]:Pv.indptr[i + 1]]
            vals = Pv.data[Pv.indptr[i]:Pv.indptr[i + 1]]
            if spl[i] == 1:
                if list(nzc) != [cidx[i]] or not (vals[0] == 1):
                    ctx.fail('one_point/C-row-value', 'by_val=%s row %d -> cols %s values %s (expected a single 1)' % (by_val, i, list(nzc), list(vals)),
                             dict(case, by_val=by_val))
                    break
            elif len(nzc) == 1:
                if not by_val and vals[0] != 1:
                    ctx.fail('one_point/F-row-value', 'by_val=False row %d value %r' % (i, vals[0]), dict(case, by_val=by_val))
                    break
                if by_val:
                    cand = [j for j in range(n) if spl[j] == 1 and j != i and Ad[i, j] != 0]
                    best = max(abs(Ad[i, j]) for j in cand) if cand else None
                    j = int(np.flatnonzero(spl == 1)[nzc[0]]) if cand else -1
                    if not cand or abs(Ad[i, j]) != best or vals[0] != -Ad[i, j]:
                        ctx.fail('one_point/F-row-value', 'by_val=True row %d: entry (%r, %r), strongest C coupling %r' % (i, int(nzc[0]), vals[0], best),
                                 dict(case, by_val=by_val))
                        break
        ctx.count('oracle:one_point-values')
    Pi = sp.csr_array(interp.injection_interpolation(A, spl))
    if Pi.shape != (n, int(spl.sum())) or not np.array_equal(Pi.toarray(), np.eye(n)[:, spl == 1]):
        ctx.fail('injection/not-injection', '', dict(base, routine='injection'))
    # local AIR: identity block on C points and (R A)[i, j] = 0 on the F pattern of row i -- for the QR and the dense-GMRES
    # local solves (GMRES run to the size of the local system, with and without its diagonal preconditioner), for CSR
    # input and for the same coupling pattern in 2x2 blocks (BSR)
    from pyamg.strength import classical_strength_of_connection
    Kb = np.array([[2.0, 0.5], [0.3, 1.5]])
    Abd = np.kron(Ad, Kb) + np.diag(0.25 * (np.arange(2 * n) % 3))
    # (also CSC / COO storage of the same matrix: the routine converts, it must not work on the transpose)
    for fmt_, Amat, Afull, bs_ in (('csr', A, Ad, 1), ('bsr', sp.bsr_array(Abd, blocksize=(2, 2)), Abd, 2),
                                   ('csc', sp.csc_array(Ad), Ad, 1), ('coo', sp.coo_array(Ad), Ad, 1)):
        for degree in (1, 2):
            for solver_, kw_ in (('qr', {}), ('gmres', dict(use_gmres=True, maxiter=0, precondition=True)),
                                 ('gmres-noprec', dict(use_gmres=True, maxiter=0, precondition=False))):
                if fmt_ == 'bsr' and degree == 2 and solver_ == 'gmres-noprec':
                    continue
                if fmt_ in ('csc', 'coo') and solver_ != 'qr':
                    continue
                case = dict(base, routine='local_air', degree=degree, format=fmt_, local_solver=solver_)
                try:
                    with warnings.catch_warnings():
                        warnings.simplefilter('ignore')
                        R = sp.csr_array(interp.local_air(Amat, spl, theta=0.1, norm='abs', degree=degree, **kw_))
                except Exception as e:   # noqa
                    ctx.fail('local_air/raises', repr(e), case)
                    continue
                ctx.count('oracle:air/%s/%s' % (fmt_, solver_))
                Cp = np.where(spl == 1)[0]
                Cs = sp.csr_array(classical_strength_of_connection(Amat if fmt_ in ('csr', 'bsr') else sp.csr_array(Ad), theta=0.1, norm='abs'))
                Rd = R.toarray()
                RA = Rd @ Afull
                scale = max(1.0, np.abs(Rd).max() * np.abs(Afull).max())
                rtol = 1e-8 if solver_ == 'qr' else 1e-6

                def blk(M_, r_, c_):
                    return M_[r_ * bs_:(r_ + 1) * bs_, c_ * bs_:(c_ + 1) * bs_]
                for r, cpt in enumerate(Cp):
                    if np.abs(blk(Rd, r, cpt) - np.eye(bs_)).max() > 1e-12 or any(np.abs(blk(Rd, r, c)).max() > 0 for c in Cp if c != cpt):
                        ctx.fail('local_air/identity-block', 'row %d' % r, case)
                        break
                    # the sparsity pattern of row r as the routine defines it (strong F neighbours, distance `degree`);
                    # local_air eliminates stored zeros, so the pattern is recomputed here.  When A restricted to the
                    # pattern is singular the defining equations have no solution in general: nothing is required then.
                    n1 = [j for j in Cs.indices[Cs.indptr[cpt]:Cs.indptr[cpt + 1]] if spl[j] == 0]
                    Fpat = set(n1)
                    if degree == 2:
                        for j in n1:
                            Fpat |= {k for k in Cs.indices[Cs.indptr[j]:Cs.indptr[j + 1]] if spl[k] == 0}
                    Fpat = sorted(int(j) for j in Fpat)
                    if any(np.abs(blk(Rd, r, j)).max() != 0 for j in range(n) if spl[j] == 0 and j not in Fpat):
                        ctx.fail('local_air/outside-pattern', 'row %d has weights outside the strong F neighbourhood' % r, case)
                        break
                    dofs = [j * bs_ + t for j in Fpat for t in range(bs_)]
                    rows_ = list(range(r * bs_, (r + 1) * bs_))
                    if Fpat and np.linalg.cond(Afull[np.ix_(dofs, dofs)]) < (1e8 if solver_ == 'qr' else 1e4) and \
                            _nn(np.abs(RA[np.ix_(rows_, dofs)]).max()) > rtol * scale:
                        ctx.fail('local_air/RA-not-zero' + ('/bsr-gmres-preconditioned' if (fmt_ == 'bsr' and solver_ == 'gmres') else ''),
                                 'row %d: max |(RA)[i,j]| on the F pattern = %.3g' % (r, np.abs(RA[np.ix_(rows_, dofs)]).max()), case)
                        break
    # the restriction does not depend on the units of A (within ordinary ranges): local_air(s A) = local_air(A) (QR local solves)
    #   -- asked only where the defining local systems are well posed: when A restricted to the F pattern of some row is
    #   (numerically) singular the least-squares helper decides by an absolute cut-off which directions count as zero, and the
    #   answer legitimately depends on the units (same guard as for the R A = 0 oracle above)
    def _well_posed(degree):
        Cs_ = sp.csr_array(classical_strength_of_connection(sp.csr_array(A), theta=0.1, norm='abs'))
        Ad_ = sp.csr_array(A).toarray()
        for cpt in np.where(spl == 1)[0]:
            n1 = [j for j in Cs_.indices[Cs_.indptr[cpt]:Cs_.indptr[cpt + 1]] if spl[j] == 0]
            Fp = set(n1)
            if degree == 2:
                for j in n1:
                    Fp |= {k for k in Cs_.indices[Cs_.indptr[j]:Cs_.indptr[j + 1]] if spl[k] == 0}
            Fp = sorted(int(j) for j in Fp)
            if Fp and not np.linalg.cond(Ad_[np.ix_(Fp, Fp)]) < 1e6:
                return False
        return True
    for degree in (1, 2):
        if not _well_posed(degree):
            ctx.count('oracle:air/scaled-skipped-singular-local-system')
            continue
        try:
            with warnings.catch_warnings():
                warnings.simplefilter('ignore')
                R1 = sp.csr_array(interp.local_air(A, spl, theta=0.1, norm='abs', degree=degree)).toarray()
                for sc_ in (1e-8, 2.0 ** -26, 2.0 ** 30):      # (the QR helper treats columns of norm < 1e-12 as zero: not below that)
                    Rs = sp.csr_array(interp.local_air(sp.csr_array(A * sc_), spl, theta=0.1, norm='abs', degree=degree)).toarray()
                    ctx.count('oracle:air/scaled')
                    if Rs.shape != R1.shape or _nn(np.abs(Rs - R1).max()) > 1e-6 * (1 + np.abs(R1).max()):
                        ctx.fail('local_air/not-scale-invariant', 'degree %d: local_air(%g A) differs from local_air(A) by %.3g' % (degree, sc_, np.abs(Rs - R1).max()),
                                 dict(base, routine='local_air', degree=degree, scale=sc_))
                        break
        except Exception as e:   # noqa
            ctx.fail('local_air/scaled/raises', repr(e), dict(base, routine='local_air', degree=degree))
    ctx.case(('oracle', repr(base['dense']), repr(base['splitting']), theta, norm), True)


def corpus(ctx, interp):
    """fixed inputs: single precision with seven orders of magnitude between couplings; the matrix itself as strength matrix"""
    t = 1e-8
    W = np.array([[1.0, -0.5, -t, 0.0], [-0.5, 1.0, -0.5, 0.0], [-t, -0.5, 1.0, -(0.5 - t)], [0.0, 0.0, -0.5, 1.0]])
    spl4 = np.array([1, 0, 0, 1], dtype='intc')
    for dt in (np.float64, np.float32):
        A4 = sp.csr_array(W.astype(dt))
        C4 = sp.csr_array((W != 0).astype(dt) - np.eye(4, dtype=dt))
        for modified in (False, True):
            case = dict(corpus='tiny-coupling-4x4', dtype=np.dtype(dt).name, modified=modified)
            ctx.mark(case)
            try:
                with warnings.catch_warnings(), np.errstate(all='ignore'):
                    warnings.simplefilter('ignore')
                    P = sp.csr_array(interp.classical_interpolation(A4, C4, spl4, modified=modified)).toarray()
            except Exception as e:   # noqa
                ctx.fail('classical/corpus/raises', repr(e), case)
                continue
            ctx.case(('corpus', 'tiny-coupling', np.dtype(dt).name, modified), True)
            ctx.count('oracle:corpus')
            # rows 1 and 2 are fine rows with zero row sum of an M-matrix whose strong F neighbours share a C point: constants are
            # interpolated exactly (to the precision of the data)
            tol_ = 1e-10 if dt == np.float64 else 1e-5
            if not np.all(np.isfinite(P)) or _nn(np.abs(P[[1, 2]].sum(1) - 1).max()) > tol_:
                ctx.fail('classical%s/row-sum-not-one/tiny-coupling' % ('/modified' if modified else ''),
                         '%s data, a_kj = -1e-8: fine rows sum to %s' % (np.dtype(dt).name, P[[1, 2]].sum(1).tolist()), case)
    # the strength matrix handed in IS the matrix (what the solvers do when no strength measure is requested): A comes back untouched
    # and the prolongator is the one obtained with a separate copy
    from pyamg.gallery import poisson
    An = sp.csr_array(poisson((5, 5), format='csr'))
    An = sp.csr_array(An - sp.diags_array(np.asarray(An.sum(axis=1)).ravel()))        # Neumann: zero row sums
    An = sp.csr_array(An + 0.0 * An)
    from pyamg.classical.split import RS
    spl5 = RS(sp.csr_array(An))
    for nm, f in (('direct', lambda C_: interp.direct_interpolation(An, C_, spl5)), ('classical', lambda C_: interp.classical_interpolation(An, C_, spl5)),
                  ('classical/modified', lambda C_: interp.classical_interpolation(An, C_, spl5, modified=True))):
        keep = An.toarray().copy()
        case = dict(corpus='C-is-A', routine=nm)
        ctx.mark(case)
        try:
            with warnings.catch_warnings(), np.errstate(all='ignore'):
                warnings.simplefilter('ignore')
                Pref = sp.csr_array(f(An.copy())).toarray()
                Pali = sp.csr_array(f(An)).toarray()
        except Exception as e:   # noqa
            ctx.fail(nm + '/C-is-A/raises', repr(e), case)
            continue
        ctx.case(('corpus', 'C-is-A', nm), True)
        ctx.count('oracle:corpus')
        if np.abs(An.toarray() - keep).max() != 0:
            ctx.fail(nm + '/C-is-A/matrix-modified', 'the matrix handed in as A and as C was overwritten (max change %.3g)' % np.abs(An.toarray() - keep).max(), case)
            An = sp.csr_array(keep)
        both = np.isfinite(Pref) & np.isfinite(Pali)
        if Pref.shape != Pali.shape or _nn(np.abs(Pref[both] - Pali[both]).max(initial=0)) > 1e-12:
            ctx.fail(nm + '/C-is-A/differs', 'C = A (same object) gives another prolongator than C = A.copy()', case)


def search(ctx):
    run(ctx)


def replay(ctx, data):
    ctx.search = True
    run(ctx)
