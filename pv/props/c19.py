"""C19 -- matrix utilities compute their stated algebraic result."""
import warnings

import numpy as np
import scipy.sparse as sp

from .. import coqrun as cq
from .. import gen

def _nn(v):
    """NaN counts as 'exceeds every bound' in the oracle comparisons"""
    return np.inf if np.isnan(v) else v


TECHNIQUE = 'Coq proofs (Ritz values bounded by the spectral radius; scaling and filtering kernels equal their definitions) + bit-exact utility-kernel correspondence + definition oracle per storage format'
LEVEL_TEXT = ('Kernel-checked theorems (Props/C19.v).  Mathcomp, any real field: for a symmetric matrix, an orthonormal basis V '
              'and H = V^T A V, every eigenvalue of H with a nonzero eigenvector is bounded in modulus by any bound of the '
              'numerical range of A -- the exact-arithmetic reason why the Arnoldi/Lanczos spectral-radius estimate never '
              'exceeds the true spectral radius.  Unbounded, any scalar type and any valid matrix of any size: the models of the '
              'CSC row / column scaling kernels multiply every stored entry by the scale of its row / column and change nothing '
              'else, the diagonal-relative row filter (no lumping) zeroes in row r exactly the entries with |a| < theta |a_rr|, and with '
              'lumping a row that stores its diagonal gets those entries added to the diagonal, so its row sum is preserved.  '
              'The Gallina models of csc_scale_rows/columns, filter_matrix_rows (with '
              'and without lumping) and truncate_rows_csr (with its in-place two-array quicksort) must agree bit-for-bit '
              'with the rebuilt working-tree kernels; an oracle checks every utility against its definition in CSR / CSC '
              '/ BSR / COO storage (scaling = product with the diagonal matrix, copy semantics, block diagonal and block '
              'inverse, diagonals of A and of the normal equations, symmetric rescaling, row/column filtering, row '
              'truncation, the filtering projection) and the spectral-radius / condition estimates against dense values.')
LEVEL_NOTE = ('"At least nine tenths of the spectral radius" is an empirical claim about a random start vector and 15 '
              'Krylov steps: decided per input by the oracle only.  condest (F16) and filter_operator (F17) repaired by '
              'fix: commits.')
RULE = ('random sparse matrices n<=9 in CSR/CSC/BSR/COO with integer, dyadic and random float entries (duplicates after '
        'conversion excluded), all scaling vectors incl. zeros, block sizes dividing n, thetas in [0,1), truncation sizes '
        '0..n+1; kernels == Utils model at PrimFloat; public utilities == dense definitions; spectral radius over '
        'Hermitian matrices x seeds (estimate <= rho(1+1e-10), >= 0.9 rho); condest on small dense symmetric / '
        'nonsymmetric real / complex matrices.  Non-trivial: at least one off-diagonal entry.')
RULE += (' '
         'Block pseudo-inverses also for the blocks scaled by 2^-45 and 2^40, and for inverse / plain / inverse call sequences on one BSR object; condest also on 1D Poisson and a periodic stencil; numerically singular matrices skipped.')
THOROUGH_ROUNDS = 5
TRUSTED = ['SciPy sparsetools csr/bsr scale kernels, format conversions', 'NumPy eigvals/svd on the oracle side']
PARTIAL = ['the 0.9 lower bound of the spectral-radius estimate: oracle only', 'block diagonal / inverse, diagonals, symmetric rescaling, truncation, filtering projection: correspondence + oracle, no theorem']
HEADER = ('From Coq Require Import ZArith List PrimFloat.\nImport ListNotations.\n'
          'Require Import PV.Base.Ops PV.Model.UtilsRun.\nOpen Scope Z_scope.\n')
I32 = np.int32


def rand_sparse(rng, n, vals, dens=0.5):
    D = np.zeros((n, n))
    for i in range(n):
        for j in range(n):
            if rng.random() < dens or i == j and rng.random() < 0.7:
                D[i, j] = rng.choice(vals)
    return D


def run(ctx):
    from pyamg import amg_core
    from pyamg.util import utils as U
    from pyamg.util import linalg as LA
    rng = ctx.sub('u')
    cases, meta = [], []
    vals = [-3, -2, -1, -0.5, 0.25, 0.5, 1, 2, 4, 0.1, -0.7]
    for it in range(100 if not ctx.thorough else 300):
        n = rng.choice([2, 3, 4, 6, 8, 9])
        D = rand_sparse(rng, n, vals)
        base = dict(dense=D.tolist())
        ctx.mark(base)
        nontriv = np.count_nonzero(D - np.diag(np.diag(D))) > 0
        Acsc = sp.csc_array(D)
        Ap, Aj = Acsc.indptr.astype(I32), Acsc.indices.astype(I32)
        x = np.array([rng.choice([0, 1, -1, 0.5, 2, 3]) for _ in range(n)], dtype=float)
        for kind, fn in ((0, amg_core.csc_scale_columns), (1, amg_core.csc_scale_rows)):
            Ax = Acsc.data.copy()
            fn(n, n, Ap, Aj, Ax, x)
            cases.append('(%d%%nat, %s, %s, %s, %s, %s, %s, [], %s)' % (kind, cq.zl([n]), cq.fl(0.0), cq.zl(Ap), cq.zl(Aj),
                                                                      cq.fll(Acsc.data), cq.fll(x), cq.fll(Ax)))
            meta.append((dict(base, kernel='csc_scale_%s' % ('columns' if kind == 0 else 'rows'), x=x.tolist()), Ax.tolist()))
            ctx.case((kind, it), nontriv)
            ctx.count('kernel:csc_scale')
        Acsr = sp.csr_array(D)
        Rp, Rj = Acsr.indptr.astype(I32), Acsr.indices.astype(I32)
        theta = rng.choice([0.0, 0.25, 0.5, 0.9])
        for kind, lump in ((2, False), (3, True)):
            Ax = Acsr.data.copy()
            amg_core.filter_matrix_rows(n, theta, Rp, Rj, Ax, lump)
            cases.append('(%d%%nat, %s, %s, %s, %s, %s, [], [], %s)' % (kind, cq.zl([n]), cq.fl(theta), cq.zl(Rp), cq.zl(Rj),
                                                                     cq.fll(Acsr.data), cq.fll(Ax)))
            meta.append((dict(base, kernel='filter_matrix_rows', theta=theta, lump=lump), Ax.tolist()))
            ctx.case((kind, it), nontriv, sample=dict(base, theta=theta, lump=lump, out=Ax.tolist()) if len(ctx.samples) < 2 and nontriv else None)
            ctx.count('kernel:filter_matrix_rows')
        k = rng.randrange(0, n + 2)
        Sj, Sx = Rj.copy(), Acsr.data.copy()
        amg_core.truncate_rows_csr(n, k, Rp, Sj, Sx)
        cases.append('(4%%nat, %s, %s, %s, %s, %s, [], %s, %s)' % (cq.zl([n, k]), cq.fl(0.0), cq.zl(Rp), cq.zl(Rj), cq.fll(Acsr.data),
                                                                cq.zl(Sj), cq.fll(Sx)))
        meta.append((dict(base, kernel='truncate_rows_csr', k=k), [Sj.tolist(), Sx.tolist()]))
        ctx.case((4, it), nontriv)
        ctx.count('kernel:truncate_rows_csr')
        oracle(ctx, U, LA, D, rng, base)
    ctx.corr_relations = ['amg_core.{csc_scale_columns, csc_scale_rows, filter_matrix_rows, truncate_rows_csr} == Utils.* at PrimFloat (bit-exact)']
    bad, errs = cq.run_cases('c19', HEADER, 'caseT', 'chk', cases, shard=80)
    for e in errs:
        ctx.disagree('C19 model evaluation', None, e, None)
    for i in bad[:20]:
        case, out = meta[i]
        ctx.disagree('utility kernel %s' % case.get('kernel'), case, 'Utils model differs', out)
    spectral(ctx, LA)
    ties(ctx, U)


def ties(ctx, U):
    """entries whose magnitude EQUALS theta |a_ii| (resp. theta max|a_ik|) are kept: the definitions drop with a strict '<'"""
    import pyamg.gallery as gal
    for name, A, th in (('poisson-1d', gal.poisson((9,), format='csr'), 0.5), ('poisson-2d', gal.poisson((4, 5), format='csr'), 0.25),
                        ('stencil-9pt', gal.stencil_grid(np.array([[-1., -2, -1], [-2, 12, -2], [-1, -2, -1]]), (5, 5), format='csr'), 1.0 / 6.0 * 1.0)):
        D = A.toarray()
        for lump in (False, True):
            B = A.copy()
            U.filter_matrix_rows(B, th, diagonal=True, lump=lump)
            want = D.copy()
            for i in range(D.shape[0]):
                thr = th * abs(D[i, i])
                for j in range(D.shape[1]):
                    if j != i and abs(D[i, j]) < thr:
                        if lump:
                            want[i, i] += D[i, j]
                        want[i, j] = 0.0
            ctx.count('oracle:filter-ties')
            if not np.array_equal(B.toarray(), want):
                ctx.fail('filter_matrix_rows/diagonal/ties/lump=%s' % lump, '%s, theta=%r: an entry with |a_ij| = theta |a_ii| is not below the threshold and must stay' % (name, th),
                         dict(matrix=name, theta=th, lump=lump))
        for nm, f, ax in (('rows', U.filter_matrix_rows, 1), ('columns', U.filter_matrix_columns, 0)):
            M = np.array([[4., -2, 1, 0], [-2, 4, -1, 2], [1, -1, 2, 0.5], [0, 2, 0.5, 1]])
            got = f(sp.csr_array(M), 0.5).toarray()
            want = np.where(np.abs(M) >= 0.5 * np.abs(M).max(axis=ax, keepdims=True), M, 0.0)
            ctx.count('oracle:filter-ties')
            if not np.array_equal(got, want):
                ctx.fail('filter_matrix_%s/ties' % nm, 'theta=0.5: an entry equal to theta times the maximum must stay', dict(matrix=M.tolist(), theta=0.5))


def oracle(ctx, U, LA, D, rng, base):
    n = D.shape[0]
    v = np.array([rng.choice([0, 1, -1, 0.5, 2, 3.5]) for _ in range(n)])
    bs_opts = [b for b in (1, 2, 3) if n % b == 0]
    for fmt in ('csr', 'csc', 'bsr', 'coo'):
        bs = rng.choice(bs_opts)
        A = sp.bsr_array(D, blocksize=(bs, bs)) if fmt == 'bsr' else sp.csr_array(D).asformat(fmt)
        case = dict(base, format=fmt, v=v.tolist())
        ctx.count('oracle:' + fmt)
        for nm, f, want in (('scale_rows', U.scale_rows, np.diag(v) @ D), ('scale_columns', U.scale_columns, D @ np.diag(v))):
            keep = A.toarray().copy()
            try:
                B = f(A, v, copy=True)
            except Exception as e:   # noqa
                ctx.fail('%s/%s/raises' % (nm, fmt), repr(e), case)
                continue
            if _nn(np.abs(B.toarray() - want).max()) > 1e-14 * (1 + np.abs(want).max()):
                ctx.fail('%s/%s/wrong' % (nm, fmt), 'differs from the diagonal product', case)
            if np.abs(A.toarray() - keep).max() != 0:
                ctx.fail('%s/%s/copy-modified-input' % (nm, fmt), 'input changed although copy=True', case)
            if fmt in ('csr', 'csc', 'bsr'):
                A2 = A.copy().astype(float)
                f(A2, v, copy=False)
                if _nn(np.abs(A2.toarray() - want).max()) > 1e-14 * (1 + np.abs(want).max()):
                    ctx.fail('%s/%s/inplace-wrong' % (nm, fmt), 'in-place result differs from the diagonal product', case)
    A = sp.csr_array(D)
    # diagonals
    for norm_eq, want in ((0, np.diag(D)), (1, (D * D).sum(0)), (2, (D * D).sum(1))):
        try:
            got = U.get_diagonal(sp.csr_array(D), norm_eq=norm_eq, inv=False)
            U.get_diagonal(sp.csr_array(D), norm_eq=norm_eq, inv=True)
        except Exception as e:   # noqa
            ctx.fail('get_diagonal/norm_eq=%d/raises' % norm_eq, repr(e), base)
            continue
        if _nn(np.abs(np.ravel(got) - want).max()) > 1e-13 * (1 + np.abs(want).max()):
            ctx.fail('get_diagonal/norm_eq=%d' % norm_eq, 'got %s want %s' % (np.ravel(got), want), base)
        inv = np.ravel(U.get_diagonal(sp.csr_array(D), norm_eq=norm_eq, inv=True))
        w2 = np.where(want != 0, 1.0 / np.where(want != 0, want, 1), 0)
        if _nn(np.abs(inv - w2).max()) > 1e-13 * (1 + np.abs(w2).max()):
            ctx.fail('get_diagonal/inv/norm_eq=%d' % norm_eq, 'inverse diagonal wrong', base)
    # block diagonal and its (pseudo-)inverse
    for bs in bs_opts:
        nb = n // bs
        bd = U.get_block_diag(sp.csr_array(D), blocksize=bs, inv_flag=False)
        want = np.array([D[k * bs:(k + 1) * bs, k * bs:(k + 1) * bs] for k in range(nb)])
        if np.abs(bd - want).max() != 0:
            ctx.fail('get_block_diag', 'blocksize %d' % bs, base)
        bi = U.get_block_diag(sp.csr_array(D), blocksize=bs, inv_flag=True)
        for k in range(nb):
            Wp = np.linalg.pinv(want[k])
            if np.linalg.cond(want[k]) < 1e8 and _nn(np.abs(bi[k] - Wp).max()) > 1e-8 * (1 + np.abs(Wp).max()):
                ctx.fail('get_block_diag/inverse', 'block %d (blocksize %d) is not the (pseudo-)inverse' % (k, bs), base)
                break
        # the same blocks in other units (exact powers of two): the pseudo-inverse scales with 1/s, including the
        # decision which singular values count as zero (relative to the largest one)
        for sc in (2.0 ** -45, 2.0 ** 40):
            bis = U.get_block_diag(sp.csr_array(D * sc), blocksize=bs, inv_flag=True)
            for k in range(nb):
                if np.linalg.cond(want[k]) < 1e8 and _nn(np.abs(bis[k] * sc - bi[k]).max()) > 1e-8 * (1 + np.abs(bi[k]).max()):
                    ctx.fail('get_block_diag/inverse/not-scale-invariant', 'block %d (blocksize %d): pinv(s B) != pinv(B)/s for s = %g' % (k, bs, sc), base)
                    break
        # BSR input: the call order on ONE matrix object must not matter (the routine caches on the object)
        if bs > 1:
            Ab_ = sp.bsr_array(D, blocksize=(bs, bs))
            i1 = U.get_block_diag(Ab_, blocksize=bs, inv_flag=True)
            d1 = U.get_block_diag(Ab_, blocksize=bs, inv_flag=False)
            i2 = U.get_block_diag(Ab_, blocksize=bs, inv_flag=True)
            if np.abs(np.asarray(d1) - want).max() != 0:
                ctx.fail('get_block_diag/after-inverse-call', 'blocksize %d: diagonal blocks requested after the inverse blocks are wrong' % bs, base)
            if _nn(np.abs(np.asarray(i1) - np.asarray(i2)).max()) > 0 or _nn(np.abs(np.asarray(i1) - bi).max()) > 1e-12 * (1 + np.abs(bi).max()):
                ctx.fail('get_block_diag/inverse/call-order', 'blocksize %d: inverse blocks depend on earlier calls' % bs, base)
            ctx.count('oracle:block-diag-call-order')
    # symmetric rescaling to unit diagonal
    S = D + D.T + np.diag([rng.choice([2.0, 3.0, 5.0]) for _ in range(n)]) * 3
    d = np.diag(S)
    if np.all(d > 0):
        Dsq, Dinv, DAD = U.symmetric_rescaling(sp.csr_array(S))
        want = S / np.sqrt(np.outer(d, d))
        if _nn(np.abs(DAD.toarray() - want).max()) > 1e-13 or _nn(np.abs(np.diag(DAD.toarray()) - 1).max()) > 1e-13:
            ctx.fail('symmetric_rescaling', 'D^-1/2 A D^-1/2 wrong', base)
    # row / column filtering and truncation
    theta = rng.choice([0.0, 0.3, 0.6])
    Fr = U.filter_matrix_rows(sp.csr_array(D), theta).toarray()
    Fc = U.filter_matrix_columns(sp.csr_array(D), theta).toarray()
    # documented rule: drop entries with |a_ik| < theta * max_k |a_ik| (row / column maximum over ALL entries)
    for i in range(n):
        mr = np.abs(D[i]).max() if n else 0.0
        mc = np.abs(D[:, i]).max() if n else 0.0
        for j in range(n):
            keep_r = D[i, j] if abs(D[i, j]) >= theta * mr else 0.0
            if Fr[i, j] != keep_r:
                ctx.fail('filter_matrix_rows', 'entry (%d,%d): %r, definition %r (theta=%r)' % (i, j, Fr[i, j], keep_r, theta), dict(base, theta=theta))
                break
            keep_c = D[j, i] if abs(D[j, i]) >= theta * mc else 0.0
            if Fc[j, i] != keep_c:
                ctx.fail('filter_matrix_columns', 'entry (%d,%d): %r, definition %r (theta=%r)' % (j, i, Fc[j, i], keep_c, theta), dict(base, theta=theta))
                break
    # rectangular matrices (wide and tall): the same definitions
    for (r_, c_) in ((max(2, n - 2), n + 2), (n + 2, max(2, n - 2))):
        Dr = np.array([[rng.choice([0, 0, 1, -1, 0.5, 2, -3.5]) for _ in range(c_)] for _ in range(r_)], dtype=float)
        Frr = U.filter_matrix_rows(sp.csr_array(Dr), theta).toarray()
        Fcr = U.filter_matrix_columns(sp.csr_array(Dr), theta).toarray()
        wr = np.where(np.abs(Dr) >= theta * np.abs(Dr).max(axis=1, keepdims=True), Dr, 0.0)
        wc = np.where(np.abs(Dr) >= theta * np.abs(Dr).max(axis=0, keepdims=True), Dr, 0.0)
        cs_ = dict(base, theta=theta, rectangular=Dr.tolist())
        if Frr.shape != Dr.shape or not np.array_equal(Frr, wr):
            ctx.fail('filter_matrix_rows/rectangular', '%dx%d matrix: result differs from the definition' % (r_, c_), cs_)
        if Fcr.shape != Dr.shape or not np.array_equal(Fcr, wc):
            ctx.fail('filter_matrix_columns/rectangular', '%dx%d matrix: result differs from the definition' % (r_, c_), cs_)
    # filtering relative to the diagonal entry (in place), with and without lumping; some rows store no diagonal
    for lump in (False, True):
        Dd = D.copy()
        for i in range(n):
            if rng.random() < 0.3:
                Dd[i, i] = 0.0
        th_d = rng.choice([0.25, 0.5, 0.25, 0.5, 0.3, 0.6, 0.9])   # dyadic thresholds: entries exactly ON the threshold are kept
        Ad_ = sp.csr_array(Dd)
        U.filter_matrix_rows(Ad_, th_d, diagonal=True, lump=lump)
        want = Dd.copy()
        for i in range(n):
            thr = th_d * abs(Dd[i, i])
            for j in range(n):
                if j != i and abs(Dd[i, j]) < thr:
                    if lump:
                        want[i, i] += Dd[i, j]
                    want[i, j] = 0.0
        if _nn(np.abs(Ad_.toarray() - want).max()) > 1e-14 * (1 + np.abs(want).max()):
            ctx.fail('filter_matrix_rows/diagonal/lump=%s' % lump, 'result differs from "drop (lump) a_ij with |a_ij| < theta |a_ii|"',
                     dict(base, theta=th_d, matrix=Dd.tolist()))
    # scaling vectors of a wider type than the matrix (copy requested: the result has the common type)
    Di = np.round(D * 2)
    vi = np.array([rng.choice([0.5, 1.5, -0.25, 2.0]) for _ in range(n)])
    vc = vi * (1 + 0.5j)
    for fmt in ('csr', 'csc', 'bsr'):
        for tag, Am, vv in (('int-matrix/float-vector', sp.csr_array(Di.astype(np.int64)), vi),
                            ('real-matrix/complex-vector', sp.csr_array(Di), vc),
                            ('float32-matrix/float64-vector', sp.csr_array(Di.astype(np.float32)), vi / 3.0)):
            Af = Am.asformat(fmt)
            if fmt == 'csc' and np.iscomplexobj(vv):
                continue          # the CSC scaling kernels are instantiated for real data only ("complex where supported")
            for nm, f, want in (('scale_rows', U.scale_rows, np.diag(vv) @ Di), ('scale_columns', U.scale_columns, Di @ np.diag(vv))):
                cs_ = dict(base, format=fmt, mixed=tag, v=[complex(t) for t in vv])
                try:
                    Bm_ = f(Af, vv, copy=True)
                except Exception as e:   # noqa
                    ctx.fail('%s/%s/mixed-types/raises' % (nm, fmt), repr(e), cs_)
                    continue
                ctx.count('oracle:mixed-types')
                if _nn(np.abs(Bm_.toarray() - want).max()) > 1e-12 * (1 + np.abs(want).max()):
                    ctx.fail('%s/%s/mixed-types' % (nm, fmt), '%s: result differs from the diagonal product' % tag, cs_)
    k = rng.randrange(1, n + 1)
    T = U.truncate_rows(sp.csr_array(D), k).toarray()
    for i in range(n):
        mags = sorted((abs(vv) for vv in D[i] if vv != 0), reverse=True)
        kept = [abs(vv) for vv in T[i] if vv != 0]
        if len(kept) > k or any(T[i, j] not in (0.0, D[i, j]) for j in range(n)) or \
                (mags and len(mags) > k and (len(kept) != k or min(kept) < mags[k - 1])) or (len(mags) <= k and len(kept) != len(mags)):
            ctx.fail('truncate_rows', 'row %d keeps %s, k=%d, magnitudes %s' % (i, kept, k, mags), dict(base, k=k))
            break
    # the filtering projection: prescribed pattern, maps B to Bf on rows whose pattern allows it
    C = sp.csr_array((np.abs(D) + np.eye(n) + np.eye(n, k=1)) != 0, dtype=float)
    Bm = np.array([[rng.choice([1.0, 2.0, -1.0, 0.5])] for _ in range(n)])
    Bf = np.array([[rng.choice([1.0, 3.0, -2.0])] for _ in range(n)])
    try:
        with warnings.catch_warnings():
            warnings.simplefilter('ignore')
            Fo = U.filter_operator(sp.csr_array(D), C, Bm, Bf)
        Fd = Fo.toarray()
        if np.any((Fd != 0) & (C.toarray() == 0)):
            ctx.fail('filter_operator/pattern', 'entries outside the prescribed pattern', base)
        res = np.abs(Fd @ Bm - Bf).ravel()
        okrows = [i for i in range(n) if np.abs(C.toarray()[i] * Bm.ravel()).sum() > 0]
        if okrows and res[okrows].max() > 1e-10 * (1 + np.abs(Bf).max()):
            ctx.fail('filter_operator/constraint', '|F B - Bf| = %.3g on rows whose pattern allows the constraint' % res[okrows].max(), base)
    except Exception as e:   # noqa
        ctx.fail('filter_operator/raises', repr(e), base)
    # the same projection with a candidate of small magnitude (B and Bf in other units), and with TWO candidates held in
    # column-major (Fortran) order -- the memory layout of B is none of the routine's business
    for tag, Bv, Bfv in (('B*1e-6', Bm * 1e-6, Bf * 1e-6), ('B*2^-40', Bm * 2.0 ** -40, Bf * 2.0 ** -40)):
        try:
            with warnings.catch_warnings():
                warnings.simplefilter('ignore')
                Fd = U.filter_operator(sp.csr_array(D), C, Bv, Bfv).toarray()
            res = np.abs(Fd @ Bv - Bfv).ravel()
            okrows = [i for i in range(n) if np.abs(C.toarray()[i] * Bm.ravel()).sum() > 0]
            ctx.count('oracle:filter_operator/' + tag)
            if okrows and res[okrows].max() > 1e-10 * np.abs(Bfv).max():
                ctx.fail('filter_operator/constraint/small-candidate', '%s: |F B - Bf| / |Bf| = %.3g on rows whose pattern allows the constraint'
                         % (tag, res[okrows].max() / np.abs(Bfv).max()), dict(base, candidate=tag))
        except Exception as e:   # noqa
            ctx.fail('filter_operator/raises', repr(e), dict(base, candidate=tag))
    if n >= 3:
        B2 = np.column_stack([Bm.ravel(), np.array([rng.choice([1.0, -1.0, 2.0, 0.5, 3.0]) for _ in range(n)]) + np.arange(n) % 3])
        Bf2 = np.column_stack([Bf.ravel(), np.array([rng.choice([1.0, -2.0, 0.5]) for _ in range(n)])])
        Cd_ = C.toarray()
        outs = {}
        for order in ('C', 'F'):
            try:
                with warnings.catch_warnings():
                    warnings.simplefilter('ignore')
                    outs[order] = U.filter_operator(sp.csr_array(D), C, np.array(B2, order=order), np.array(Bf2, order=order)).toarray()
            except Exception as e:   # noqa
                ctx.fail('filter_operator/raises', repr(e), dict(base, candidates=2, order=order))
        if len(outs) == 2:
            ctx.count('oracle:filter_operator/memory-order')
            ok2 = [i for i in range(n) if np.linalg.matrix_rank(B2[np.flatnonzero(Cd_[i])]) == 2]
            if _nn(np.abs(outs['C'] - outs['F']).max()) > 1e-10 * (1 + np.abs(outs['C']).max()):
                ctx.fail('filter_operator/memory-order', 'column-major candidates give another operator than the same candidates row-major (max diff %.3g)'
                         % np.abs(outs['C'] - outs['F']).max(), dict(base, candidates=2))
            elif ok2 and np.abs(outs['F'] @ B2 - Bf2)[ok2].max() > 1e-8 * (1 + np.abs(Bf2).max()):
                ctx.fail('filter_operator/constraint/two-candidates', '|F B - Bf| = %.3g on rows whose pattern supports both constraints'
                         % np.abs(outs['F'] @ B2 - Bf2)[ok2].max(), dict(base, candidates=2))
    # the prescribed pattern stores some explicit zeros (a thresholded pattern): the projection still maps B to Bf on every row
    # whose stored pattern supports it; and four / five candidates (the local Gram matrices have more than 3 x 3 entries)
    Cz = C.copy().astype(float)
    if Cz.nnz > 2:
        Cz.data[::3] = 0.0                   # stored zeros: still part of the pattern
        try:
            with warnings.catch_warnings():
                warnings.simplefilter('ignore')
                Fz = U.filter_operator(sp.csr_array(D), Cz, Bm, Bf).toarray()
            patz = np.zeros((n, n), dtype=bool)
            for i_ in range(n):
                patz[i_, Cz.indices[Cz.indptr[i_]:Cz.indptr[i_ + 1]]] = True
            okz = [i_ for i_ in range(n) if np.abs(patz[i_] * Bm.ravel()).sum() > 0]
            ctx.count('oracle:filter_operator/stored-zeros-in-pattern')
            if np.any((Fz != 0) & ~patz):
                ctx.fail('filter_operator/pattern/stored-zeros', 'entries outside the stored pattern', base)
            elif okz and np.abs(Fz @ Bm - Bf).ravel()[okz].max() > 1e-10 * (1 + np.abs(Bf).max()):
                ctx.fail('filter_operator/constraint/stored-zeros-in-pattern', '|F B - Bf| = %.3g on rows whose stored pattern allows the constraint'
                         % np.abs(Fz @ Bm - Bf).ravel()[okz].max(), base)
        except Exception as e:   # noqa
            ctx.fail('filter_operator/raises', repr(e), dict(base, pattern='stored zeros'))
    if n >= 6:
        for K_ in (4, 5):
            BK = np.array([[rng.choice([1.0, -1.0, 2.0, 0.5, 3.0, -2.0]) for _ in range(K_)] for _ in range(n)]) + np.vander(np.arange(n) % 4 + 1.0, K_) * 0.1
            BfK = np.array([[rng.choice([1.0, -2.0, 0.5, 3.0]) for _ in range(K_)] for _ in range(n)])
            Cfull = sp.csr_array(np.ones((n, n)))
            try:
                with warnings.catch_warnings():
                    warnings.simplefilter('ignore')
                    FK = U.filter_operator(sp.csr_array(D + np.eye(n)), Cfull, BK, BfK).toarray()
                ctx.count('oracle:filter_operator/%d-candidates' % K_)
                if np.linalg.matrix_rank(BK) == K_ and np.abs(FK @ BK - BfK).max() > 1e-8 * (1 + np.abs(BfK).max()) * np.linalg.cond(BK.T @ BK):
                    ctx.fail('filter_operator/constraint/%d-candidates' % K_, '|F B - Bf| = %.3g with a full pattern and %d candidates' % (np.abs(FK @ BK - BfK).max(), K_), dict(base, candidates=K_))
            except Exception as e:   # noqa
                ctx.fail('filter_operator/raises', repr(e), dict(base, candidates=K_))
    # BSR matrices whose block array is NOT C-contiguous (e.g. a transposed view), scaled by a vector of a wider type
    for bsz_ in (b_ for b_ in (2, 3) if n % b_ == 0):
        Ab_ = sp.bsr_array(np.round(2 * D), blocksize=(bsz_, bsz_))
        if Ab_.nnz == 0:
            continue
        nonc = np.asfortranarray(Ab_.data)                       # same numbers, Fortran memory order
        for tag_, data_, vv_ in (('fortran-order/float32->float64', nonc.astype(np.float32, order='F'), np.array([rng.choice([0.5, 1.5, -0.25, 2.0]) for _ in range(n)]) / 3.0),
                                 ('fortran-order/int->float', np.asfortranarray(np.round(nonc).astype(np.int64)), np.array([rng.choice([0.5, 1.5, -0.25]) for _ in range(n)])),
                                 ('fortran-order/real->complex', nonc.copy(order='F'), np.array([rng.choice([0.5, 1.5]) for _ in range(n)]) * (1 + 0.5j))):
            Anc = sp.bsr_array((data_, Ab_.indices.copy(), Ab_.indptr.copy()), shape=Ab_.shape)
            Dn = Anc.toarray()
            for nm_, f_, want_ in (('scale_rows', U.scale_rows, np.diag(vv_) @ Dn), ('scale_columns', U.scale_columns, Dn @ np.diag(vv_))):
                try:
                    got_ = f_(Anc, vv_, copy=True).toarray()
                except Exception as e:   # noqa
                    ctx.fail('%s/bsr/%s/raises' % (nm_, tag_), repr(e), dict(base, blocksize=bsz_, layout=tag_))
                    continue
                ctx.count('oracle:bsr-noncontiguous')
                if _nn(np.abs(got_ - want_).max()) > 1e-6 * (1 + np.abs(want_).max()):
                    ctx.fail('%s/bsr/non-contiguous-blocks' % nm_, '%s: result differs from the diagonal product by %.3g' % (tag_, np.abs(got_ - want_).max()),
                             dict(base, blocksize=bsz_, layout=tag_))
    # pseudo-inverses of stacked small blocks (1x1 .. 3x3) in other units: pinv(s B) = pinv(B) / s
    for bsz in (1, 2, 3):
        blk = np.array([[[rng.choice([-2.0, -1.0, 0.5, 1.0, 3.0, 0.0]) for _ in range(bsz)] for _ in range(bsz)] for _ in range(4)])
        blk += np.eye(bsz) * np.array([rng.choice([0.0, 1.0, 4.0]) for _ in range(4)])[:, None, None]
        ref = np.array([np.linalg.pinv(b_) for b_ in blk])
        for sc in (1.0, 2.0 ** -45, 1e-12, 2.0 ** 40):
            work = (blk * sc).copy()
            LA.pinv_array(work)
            ctx.count('oracle:pinv_array')
            well = [k for k in range(4) if np.linalg.matrix_rank(blk[k]) in (0, bsz) and (np.linalg.matrix_rank(blk[k]) == 0 or np.linalg.cond(blk[k]) < 1e6)]
            if well and _nn(np.abs(work[well] * sc - ref[well]).max()) > 1e-8 * (1 + np.abs(ref[well]).max()):
                ctx.fail('pinv_array/not-scale-invariant', '%dx%d blocks scaled by %g: pinv(s B) != pinv(B) / s' % (bsz, bsz, sc), dict(blocks=blk.tolist(), scale=sc))
                break
    # symmetric rescaling of INTEGER matrices in every input class: the result is a floating-point matrix with unit diagonal
    Si = (np.round(np.abs(D)) + np.round(np.abs(D)).T).astype(np.int64) + np.diag([rng.choice([2, 3, 5]) for _ in range(n)]).astype(np.int64)
    di = np.diag(Si).astype(float)
    want_i = Si / np.sqrt(np.outer(di, di))
    for fmt in ('csr', 'csc', 'coo', 'lil', 'dia', 'bsr'):
        try:
            with warnings.catch_warnings():
                warnings.simplefilter('ignore')
                _, _, DADi = U.symmetric_rescaling(sp.csr_array(Si).asformat(fmt))
        except Exception as e:   # noqa
            ctx.fail('symmetric_rescaling/%s/int/raises' % fmt, repr(e), dict(base, format=fmt))
            continue
        ctx.count('oracle:symmetric_rescaling/int')
        got_i = DADi.toarray() if sp.issparse(DADi) else np.asarray(DADi)
        if _nn(np.abs(got_i - want_i).max()) > 1e-13:
            ctx.fail('symmetric_rescaling/%s/integer-input' % fmt, 'integer matrix in %s format: D^-1/2 A D^-1/2 wrong (max deviation %.3g, result dtype %s)'
                     % (fmt, np.abs(got_i - want_i).max(), got_i.dtype), dict(base, format=fmt, matrix=Si.tolist()))
    ctx.case(('oracle', repr(base['dense'])), True)


def spectral(ctx, LA):
    rng = ctx.sub('spec')
    for it in range(30 if not ctx.thorough else 80):
        n = rng.choice([5, 8, 12, 20])
        Hh = gen.poisson_like(rng, n)
        cplx = rng.random() < 0.4
        if cplx:
            u = np.exp(1j * np.array([rng.uniform(0, 6) for _ in range(n)]))
            Hh = np.diag(u) @ Hh @ np.diag(u.conj())
        rho = max(abs(np.linalg.eigvalsh(Hh)))
        for seed in range(3):
            np.random.seed(1000 * ctx.seed + 10 * it + seed)
            est = LA.approximate_spectral_radius(sp.csr_array(Hh))
            case = dict(hermitian=[[complex(x) for x in r] for r in Hh], seed=1000 * ctx.seed + 10 * it + seed)
            ctx.case(('rho', it, seed), True)
            ctx.count('spectral_radius')
            if est > rho * (1 + 1e-10):
                ctx.fail('approximate_spectral_radius/exceeds', 'estimate %.12g > rho %.12g' % (est, rho), case)
            if est < 0.9 * rho:
                ctx.fail('approximate_spectral_radius/below-0.9', 'estimate %.12g < 0.9 * %.12g' % (est, rho), case)
        # condition estimate on small dense matrices (every third round: structured matrices whose extreme eigenvectors are
        # special with respect to simple start vectors -- 1D Poisson, a periodic (circulant) stencil)
        m = rng.choice([2, 3, 5, 7, 12, 18])
        for sym in (True, False):
            M = gen.poisson_like(rng, m)
            if it % 3 == 1:
                from pyamg.gallery import poisson as _pois
                M = _pois((10,), format='csr').toarray() if sym else (3.0 * np.eye(8) - np.roll(np.eye(8), 1, 0) - np.roll(np.eye(8), -1, 0))
            elif not sym:
                M = M + np.triu(np.array([[rng.choice([0, 0.5, -0.25]) for _ in range(m)] for _ in range(m)]), 1)
            if it % 3 != 1 and rng.random() < 0.3:
                M = M.astype(complex) * np.exp(0.3j) if not sym else M
            true = np.linalg.cond(M)
            if not np.isfinite(true) or true > 1e6:
                # the random perturbation made the matrix (numerically) singular: its condition number is not a
                # quantity any estimate can match to 1e-6
                ctx.count('condest-skipped-singular')
                continue
            np.random.seed(ctx.seed + it)
            with warnings.catch_warnings():
                warnings.simplefilter('ignore')
                est = LA.condest(M, maxiter=25, symmetric=sym)
            ctx.case(('condest', it, sym), True)
            ctx.count('condest')
            if abs(est - true) > 1e-6 * true:
                ctx.fail('condest/%s' % ('symmetric' if sym else 'nonsymmetric'), 'estimate %.10g, 2-norm condition number %.10g' % (est, true),
                         dict(matrix=[[complex(x) for x in r] for r in M], symmetric=sym))


def search(ctx):
    run(ctx)


def replay(ctx, data):
    run(ctx)
