"""C03 -- a cycle is the textbook multigrid recursion: fixed, linear and consistent."""
import warnings

import numpy as np
import scipy.sparse as sp

from .. import coqrun as cq
from .. import hier

def _nn(v):
    """NaN counts as 'exceeds every bound' in the oracle comparisons"""
    return np.inf if np.isnan(v) else v


TECHNIQUE = 'Coq proof: cycle = x + M(b - Ax) with M the textbook recursion (any hierarchy of additive groups) + exact Q correspondence'
LEVEL_TEXT = ('Kernel-checked theorems (Props/C03.v) about the Gallina transcription of MultilevelSolver.__solve, for '
              'every hierarchy depth, every family of abelian groups as level spaces and every additive A, smoother '
              'correctors, P, R (R need not be P^T) with an exact coarse solve: one V/W/F cycle equals x + M(b - Ax) '
              'where M is the textbook composition (coarser level once / twice / F then cycles_per_level V-cycles); M is '
              'additive; the exact solution is a fixed point; the preconditioner (cycle from the zero guess) is M; k calls '
              'compose.  The same Gallina [cycle], instantiated on dense rational data, must reproduce exactly what '
              'MultilevelSolver.solve / aspreconditioner return on hand-assembled dyadic hierarchies (2-4 levels, distinct '
              'pre/post smoothers, R <> P^T, V/W/F, cycles_per_level 1-3, k cycles); a dense NumPy textbook recursion with '
              'probed smoother maps decides the property on hierarchies from every constructor, smoother family and '
              'direct coarse solver.')
LEVEL_NOTE = ('The theorems quantify over abstract additive groups; the executed instance uses lists of rationals of the '
              'right lengths (the group laws hold there only for well-sized vectors; that instance gap is covered by '
              'the exact correspondence, not by a proof).  AMLI cycles and Krylov smoothers / coarse solvers are outside '
              'the property.')
RULE = ('hand-built dyadic hierarchies (levels 2-4, n0<=5, entries in {0,+-1/2,+-1,+-2}) x cycle V/W/F x cpl 1-3 x k=1-2 '
        'cycles: solve(b,x0,maxiter=k) and aspreconditioner(cycle)@v == Cycle.cycle / Mtb on Q exactly; built hierarchies '
        '(5 constructors + AIR, smoothers gauss_seidel/jacobi/sor/block/schwarz/NE/chebyshev, coarse pinv/lu/cholesky/splu): '
        'dense reference recursion (tol 1e-9), fixed point, k calls = k-cycle call, preconditioner linear and equal to M. '
        'Non-trivial: >= 2 levels; distinct = distinct (hierarchy, cycle, cpl, k, vectors).')
RULE += (' '
         'Also: 2x2 block smoothers; the operator handed to a spy accelerator by solve(accel=..., cycle=...) equals M of that cycle; a guess within the default tolerance is still updated by one cycle.')
THOROUGH_ROUNDS = 4
TRUSTED = ['SciPy sparse @ dense (exact on dyadic data)', 'NumPy dense linear algebra on the oracle side']
PARTIAL = ['instance gap between abstract groups and sized rational lists (covered by correspondence only)']
NOT_COVERED = ['AMLI cycle, Krylov smoothers and coarse solvers (excluded by the property)']
HEADER = ('From Coq Require Import ZArith List QArith.\nImport ListNotations.\n'
          'Require Import PV.Base.Ops PV.Model.Cycle PV.Model.CycleRun.\n')

VALS = [1, -1, 1, -1, 0.5, -0.5, 2]
SMALL = [0.25, -0.25, 0.5, -0.5, 0.125]


def rmat(rng, r, c, dens=0.6, vals=VALS):
    M = np.zeros((r, c))
    for i in range(r):
        for j in range(c):
            if rng.random() < dens:
                M[i, j] = rng.choice(vals)
    return M


def fits(v, bits=30):
    """all entries are dyadic rationals with numerator and denominator below 2^bits: the float
    computation that produced them was then (almost surely) exact"""
    for t in np.ravel(v):
        a, b = float(t).as_integer_ratio()
        if abs(a) >= 2 ** bits or b >= 2 ** bits:
            return False
    return True


def qmat(M):
    return cq.lst([cq.ql(row) for row in np.asarray(M).tolist()])


def build_manual(rng, sizes, rp_transpose):
    """returns (ml, data) with dyadic level operators and callable smoothers"""
    from pyamg.multilevel import MultilevelSolver
    levels, data = [], []
    for l, n in enumerate(sizes):
        lv = MultilevelSolver.Level()
        if l == len(sizes) - 1:
            d = np.array([rng.choice([2.0, 4.0, -2.0, 8.0]) for _ in range(n)])
            A = np.diag(d)
            Ainv = np.diag(1.0 / d)
            lv.A = sp.csr_array(A)
            data.append((n, A, Ainv))
        else:
            nc = sizes[l + 1]
            A = rmat(rng, n, n, 0.5) + np.diag([rng.choice([2.0, 4.0]) for _ in range(n)])
            P = rmat(rng, n, nc, 0.5, [1, -1, 0.5, 1])
            R = P.T.copy() if rp_transpose else rmat(rng, nc, n, 0.5, [1, -1, 0.5, 1])
            Bpre = rmat(rng, n, n, 0.4, SMALL)
            Bpost = rmat(rng, n, n, 0.4, SMALL)
            lv.A, lv.P, lv.R = sp.csr_array(A), sp.csr_array(P), sp.csr_array(R)

            def mk(B):
                def smooth(A_, x, b):
                    x += B @ (b - A_ @ x)
                return smooth
            lv.presmoother, lv.postsmoother = mk(Bpre), mk(Bpost)
            data.append((n, A, Bpre, Bpost, P, R))
        levels.append(lv)
    Ainv = data[-1][2]
    ml = MultilevelSolver(levels, coarse_solver=lambda A_, b: Ainv @ b)
    return ml, data


def term(data, ct, cpl, k, x0, b, out):
    fine = cq.lst(['(%d%%nat, %s, %s, %s, %s, %s)' % (d[0], qmat(d[1]), qmat(d[2]), qmat(d[3]), qmat(d[4]), qmat(d[5]))
                   for d in data[:-1]])
    n, Ac, Ainv = data[-1]
    return '(%s, (%d%%nat, %s, %s), (%s)%%Z, %d%%nat, %d%%nat, %s, %s, %s)' % (
        fine, n, qmat(Ac), qmat(Ainv), cq.z(ct), cpl, k, cq.ql(x0), cq.ql(b), cq.ql(out))


def exact_part(ctx):
    rng = ctx.sub('manual')
    cases, metas, casesM, metasM = [], [], [], []
    nh = 120 if not ctx.thorough else 500
    if ctx.search:
        nh = 200
    for h in range(nh):
        depth = rng.choice([2, 2, 3, 3, 4])
        sizes = sorted([rng.choice([1, 2, 3, 4, 5]) for _ in range(depth)], reverse=True)
        ml, data = build_manual(rng, sizes, rp_transpose=rng.random() < 0.4)
        n0 = sizes[0]
        for ct, cname in enumerate('VWF'):
            for cpl in ((1,) if cname != 'F' else (1, 2, 3)):
                for k in (1, 2):
                    x0 = np.array([rng.choice([0, 1, -1, 0.5]) for _ in range(n0)])
                    b = np.array([rng.choice([0, 1, -1, 2, 0.5]) for _ in range(n0)])
                    case = dict(sizes=sizes, cycle=cname, cpl=cpl, k=k, x0=x0.tolist(), b=b.tolist(),
                                levels=[[np.asarray(m).tolist() for m in d[1:]] for d in data])
                    ctx.mark(case)
                    try:
                        x = ml.solve(b, x0=x0, maxiter=k, tol=1e-300, cycle=cname, cycles_per_level=cpl)
                    except Exception as e:   # noqa
                        ctx.fail('solve/raises', repr(e), case)
                        continue
                    if not fits(x):
                        ctx.count('manual:skipped-too-many-bits')
                        continue
                    cases.append(term(data, ct, cpl, k, x0, b, x))
                    metas.append((case, x.tolist()))
                    ctx.case(('manual', h, cname, cpl, k, x0.tobytes(), b.tobytes()), True,
                             sample=dict(sizes=sizes, cycle=cname, cpl=cpl, k=k, x=x.tolist()) if h == 0 and k == 1 else None)
                    ctx.count('manual:%s' % cname)
                    ctx.count('depth=%d' % depth)
            # preconditioner (cycles_per_level is not forwarded by aspreconditioner: cpl = 1)
            v = np.array([rng.choice([0, 1, -1, 2]) for _ in range(n0)], dtype=float)
            Mv = ml.aspreconditioner(cycle=cname) @ v
            if not fits(Mv):
                continue
            casesM.append(term(data, ct, 1, 1, np.zeros(n0), v, Mv))
            metasM.append((dict(sizes=sizes, cycle=cname, v=v.tolist(), kind='aspreconditioner'), Mv.tolist()))
            ctx.case(('precond', h, cname, v.tobytes()), True)
            ctx.count('manual:precond')
    for nm, cs, ms, chk in (('c03', cases, metas, 'chk'), ('c03M', casesM, metasM, 'chkM')):
        bad, errs = cq.run_cases(nm, HEADER, 'caseT', chk, cs, shard=120)
        for e in errs:
            ctx.disagree('C03 model evaluation', None, e, None)
        for i in bad[:20]:
            case, out = ms[i]
            ctx.disagree('MultilevelSolver.solve cycle (%s)' % nm, case, 'Cycle.cycle on Q differs', out)


# ------------------------------------------------------------------ oracle part
def probe_affine(f, A, n, dtype):
    """matrix B with f(A, x, b): x <- x + B (b - A x); checked for affinity by the caller"""
    B = np.zeros((n, n), dtype=dtype)
    for j in range(n):
        e = np.zeros(n, dtype=dtype)
        e[j] = 1
        x = np.zeros(n, dtype=dtype)
        f(A, x, e)
        B[:, j] = x
    return B


def reference_M(levels, Ainv, ct, cpl):
    """textbook recursion on dense matrices; levels: list of dict(A,P,R,Bpre,Bpost) fine->coarse"""
    def M_of(l, ct):
        if l == len(levels):
            return Ainv
        L = levels[l]
        A, P, R, Bpre, Bpost = L['A'], L['P'], L['R'], L['Bpre'], L['Bpost']
        Ac = levels[l + 1]['A'] if l + 1 < len(levels) else L['Ac']
        I = np.eye(A.shape[0])
        Ic = np.eye(Ac.shape[0])
        if ct == 'V':
            C = M_of(l + 1, 'V')
        elif ct == 'W':
            Mw = M_of(l + 1, 'W')
            C = Mw + Mw @ (Ic - Ac @ Mw)
        else:
            C = M_of(l + 1, 'F')
            Mv = M_of(l + 1, 'V')
            for _ in range(cpl):
                C = C + Mv @ (Ic - Ac @ C)
        X1 = Bpre
        X2 = X1 + P @ C @ R @ (I - A @ X1)
        return X2 + Bpost @ (I - A @ X2)
    return M_of(0, ct)


SMOOTHERS = [('gauss_seidel', {'sweep': 'symmetric'}), ('gauss_seidel', {'sweep': 'forward', 'iterations': 2}),
             ('jacobi', {'omega': 0.8}), ('sor', {'omega': 1.3, 'sweep': 'backward'}),
             ('block_gauss_seidel', {'sweep': 'symmetric', 'blocksize': 1}), ('schwarz', {}),
             ('gauss_seidel_ne', {'sweep': 'forward'}), ('jacobi_ne', {}), ('chebyshev', {'degree': 2}),
             ('richardson', {'omega': 0.6}), ('block_jacobi', {'blocksize': 1}),
             ('chebyshev', {'degree': 3, 'iterations': 2}), ('richardson', {'omega': 0.5, 'iterations': 3}),
             ('jacobi', {'omega': 0.7, 'iterations': 2}), ('schwarz', {'iterations': 2}),
             # genuine 2x2 blocks (blocksize 1 is replaced by the point method in the setup); fall back to 1 on odd sizes
             ('block_gauss_seidel', {'sweep': 'forward', 'blocksize': 2}), ('block_jacobi', {'blocksize': 2}),
             ('block_gauss_seidel', {'sweep': 'symmetric', 'blocksize': 2, 'iterations': 2}),
             # no smoothing on one side; coarse/fine-ordered Jacobi (needs the C/F splitting kept with the hierarchy,
             # otherwise replaced by Gauss-Seidel)
             ('none', {}), ('cf_jacobi', {'omega': 0.7}), ('fc_jacobi', {'omega': 0.6, 'f_iterations': 2}), ('none', {})]


def oracle_part(ctx):
    rng = ctx.sub('built')
    mats = hier.hpd_matrices(rng)
    sel = []
    bl = hier.builders()
    for bi, (bname, f, _) in enumerate(bl):
        for mi, (mname, A) in enumerate(mats):
            if ctx.thorough or ctx.search or (mi + 2 * bi) % 4 == 0:
                sel.append((bname, f, mname, A))
    # block-storage and complex problems are always in (their kernels are separate code)
    for bname, f, _ in bl:
        if bname in ('sa', 'rootnode'):
            for mname, A in mats:
                if (getattr(A, 'format', '') == 'bsr' or np.iscomplexobj(A.data)) and not any(e[0] == bname and e[2] == mname for e in sel):
                    sel.append((bname, f, mname, A))
    an, af, _ = hier.air_builder()
    sel.append((an, af, 'upwind-5x5', hier.nonsym_matrix(5)))
    # classical hierarchies that keep their C/F splittings (for the coarse/fine-ordered smoothers), several levels deep
    import pyamg
    for mname, A in mats[:4]:
        if not np.iscomplexobj(A.data):
            sel.append(('rs-keep', lambda A_: pyamg.ruge_stuben_solver(sp.csr_array(A_), max_coarse=2, keep=True), mname, A))
    # every smoother family is used at least once before and once after the coarse-grid correction on a
    # hierarchy with >= 2 levels: build first, then deal the smoothers out over the multi-level hierarchies
    multi, single = [], []
    for bname, f, mname, A in sel:
        np.random.seed(ctx.seed)
        try:
            nl_ = len(f(A).levels)
        except Exception:   # noqa
            continue
        (multi if nl_ > 1 else single).append((bname, f, mname, A))
    plan = [multi[k % len(multi)] for k in range(max(len(multi), len(SMOOTHERS)))] if multi else []
    plan += single[:2]
    plan = [p_ + (None,) for p_ in plan]
    for ent in [e for e in multi if e[0] in ('rs-keep', 'air')][:3]:
        plan.append(ent + ((('cf_jacobi', {'omega': 0.7}), ('fc_jacobi', {'omega': 0.6, 'f_iterations': 2})),))
        plan.append(ent + ((('fc_jacobi', {'omega': 0.8}), ('none', {})),))
    # complex hierarchies with the normal-equation smoothers (conjugations must sit on the right factor: the cycle is
    # linear over the complex numbers), and block-storage (BSR) hierarchies with the point smoothers that have their
    # own BSR kernels
    for ent in [e for e in multi if np.iscomplexobj(e[3].data)][:2]:
        plan.append(ent + ((('gauss_seidel_nr', {'sweep': 'forward'}), ('gauss_seidel_ne', {'sweep': 'backward'})),))
        plan.append(ent + ((('jacobi_ne', {}), ('gauss_seidel_nr', {'sweep': 'symmetric'})),))
    for ent in [e for e in multi if getattr(e[3], 'format', '') == 'bsr' and e[0] in ('sa', 'rootnode', 'sa-energy')][:2]:
        plan.append(ent + ((('jacobi', {'omega': 0.8}), ('gauss_seidel', {'sweep': 'forward'})),))
        plan.append(ent + ((('sor', {'omega': 1.2, 'sweep': 'symmetric'}), ('jacobi', {'omega': 0.6, 'iterations': 2})),))
    for idx, (bname, f, mname, A, forced) in enumerate(plan):
        np.random.seed(ctx.seed)
        try:
            ml = f(A)
        except Exception:   # noqa
            continue
        nlev = len(ml.levels)
        coarse = rng.choice(['pinv', 'lu', 'splu'] + (['cholesky'] if bname != 'air' else []))
        from pyamg.multilevel import coarse_grid_solver
        ml.coarse_solver = coarse_grid_solver(coarse)
        pre, post = SMOOTHERS[idx % len(SMOOTHERS)], SMOOTHERS[(5 * idx + 3) % len(SMOOTHERS)]
        if forced is not None:
            pre, post = forced
        if not all(hasattr(ml.levels[l], 'splitting') for l in range(nlev - 1)):
            pre, post = [('gauss_seidel', {'sweep': 'backward'}) if nm in ('cf_jacobi', 'fc_jacobi') else (nm, kw) for nm, kw in (pre, post)]
        if pre[0] == 'none' and post[0] == 'none':
            post = ('gauss_seidel', {'sweep': 'symmetric'})
        if any(ml.levels[l].A.shape[0] % 2 for l in range(nlev - 1)):
            pre, post = [(nm, dict(kw, blocksize=1)) if kw.get('blocksize') == 2 else (nm, kw) for nm, kw in (pre, post)]
        from pyamg.relaxation.smoothing import change_smoothers
        try:
            change_smoothers(ml, presmoother=None if pre[0] == 'none' else pre, postsmoother=None if post[0] == 'none' else post)
        except Exception as e:   # noqa
            ctx.notes.append('change_smoothers %s/%s on %s: %r' % (pre[0], post[0], bname, e))
            continue
        dt = ml.levels[0].A.dtype
        case = dict(builder=bname, matrix=mname, pre=pre, post=post, coarse=coarse, levels=nlev)
        ctx.mark(case)
        levels = []
        ok = True
        for l in range(nlev - 1):
            L = ml.levels[l]
            Ad = hier.dense_of(L.A)
            n = Ad.shape[0]
            d = dict(A=Ad, P=hier.dense_of(L.P), R=hier.dense_of(L.R),
                     Bpre=probe_affine(L.presmoother, L.A, n, dt), Bpost=probe_affine(L.postsmoother, L.A, n, dt),
                     Ac=hier.dense_of(ml.levels[l + 1].A))
            # stationary: the probed map must reproduce the smoother on a random (x, b)
            xr = np.array([rng.uniform(-1, 1) for _ in range(n)]).astype(dt)
            br = np.array([rng.uniform(-1, 1) for _ in range(n)]).astype(dt)
            if np.issubdtype(dt, np.complexfloating):
                xr = xr + 1j * np.array([rng.uniform(-1, 1) for _ in range(n)])
                br = br + 1j * np.array([rng.uniform(-1, 1) for _ in range(n)])
            xs = xr.copy()
            L.presmoother(L.A, xs, br)
            if _nn(np.linalg.norm(xs - (xr + d['Bpre'] @ (br - Ad @ xr)))) > 1e-9 * (1 + np.linalg.norm(xs)):
                ctx.fail('smoother-not-affine/%s' % pre[0], 'presmoother is not x + B(b-Ax) with fixed B', case)
                ok = False
            xs = xr.copy()
            L.postsmoother(L.A, xs, br)
            if _nn(np.linalg.norm(xs - (xr + d['Bpost'] @ (br - Ad @ xr)))) > 1e-9 * (1 + np.linalg.norm(xs)):
                ctx.fail('smoother-not-affine/%s' % post[0], 'postsmoother is not x + B(b-Ax) with fixed B', case)
                ok = False
            levels.append(d)
        if not ok:
            continue
        Acd = hier.dense_of(ml.levels[-1].A)
        nc = Acd.shape[0]
        Ainv = np.zeros((nc, nc), dtype=dt)
        for j in range(nc):
            e = np.zeros(nc, dtype=dt)
            e[j] = 1
            Ainv[:, j] = ml.coarse_solver(ml.levels[-1].A, e)
        A0 = hier.dense_of(ml.levels[0].A)
        n0 = A0.shape[0]
        for cname, cpl in (('V', 1), ('W', 1), ('F', 1), ('F', 2), ('W', 3), ('V', 2)):
            if nlev == 1 and cname != 'V':
                continue
            # (cycles_per_level is a parameter of the F-cycle: V and W ignore it)
            M = reference_M(levels, Ainv, cname, cpl) if nlev > 1 else Ainv
            x0 = np.array([rng.uniform(-1, 1) for _ in range(n0)]).astype(dt)
            b = np.array([rng.uniform(-1, 1) for _ in range(n0)]).astype(dt)
            if np.issubdtype(dt, np.complexfloating):
                x0 = x0 + 1j * np.array([rng.uniform(-1, 1) for _ in range(n0)])
                b = b + 1j * np.array([rng.uniform(-1, 1) for _ in range(n0)])
            cs = dict(case, cycle=cname, cpl=cpl)
            ctx.case(('built', bname, mname, cname, cpl, pre[0], post[0], coarse), nlev > 1)
            ctx.count('built:' + bname)
            ctx.count('pre:' + pre[0])
            scale = 1 + np.linalg.norm(M) * np.linalg.norm(A0)
            tol = 1e-9 * scale
            x1 = ml.solve(b, x0=x0, maxiter=1, tol=1e-300, cycle=cname, cycles_per_level=cpl)
            want = x0 + M @ (b - A0 @ x0) if nlev > 1 else M @ b
            if _nn(np.linalg.norm(x1 - want)) > tol * (1 + np.linalg.norm(want)):
                ctx.fail('cycle/%s/not-textbook' % cname, '|solve - (x + M(b-Ax))| = %.3g' % np.linalg.norm(x1 - want), cs)
            # mixed dtypes: a real right-hand side with a complex guess (complex hierarchy), an integer right-hand side with a
            # float guess (real hierarchy) -- the guess keeps all its digits
            if nlev > 1:
                b_m = (np.real(b).astype(float) if np.iscomplexobj(A0) else np.round(4 * np.real(b)).astype(np.int64))
                x_m = ml.solve(b_m, x0=x0.copy(), maxiter=1, tol=1e-300, cycle=cname, cycles_per_level=cpl)
                want_m = x0 + M @ (b_m - A0 @ x0)
                if _nn(np.linalg.norm(x_m - want_m)) > tol * (1 + np.linalg.norm(want_m)):
                    ctx.fail('cycle/%s/mixed-dtypes' % cname, 'b of dtype %s, x0 of dtype %s: |solve - (x + M(b-Ax))| = %.3g'
                             % (b_m.dtype, x0.dtype, np.linalg.norm(x_m - want_m)), cs)
                ctx.count('mixed-dtypes')
            # k calls == one k-cycle call
            xa = x0.copy()
            for _ in range(3):
                xa = ml.solve(b, x0=xa, maxiter=1, tol=1e-300, cycle=cname, cycles_per_level=cpl)
            xb = ml.solve(b, x0=x0, maxiter=3, tol=1e-300, cycle=cname, cycles_per_level=cpl)
            if _nn(np.linalg.norm(xa - xb)) > 1e-10 * (1 + np.linalg.norm(xb)):
                ctx.fail('cycle/%s/k-calls' % cname, '3 one-cycle calls differ from one 3-cycle call by %.3g' % np.linalg.norm(xa - xb), cs)
            # exact solution is a fixed point
            if np.linalg.cond(A0) < 1e8:
                xs = np.linalg.solve(A0, b)
                xf = ml.solve(b, x0=xs, maxiter=1, tol=1e-300, cycle=cname, cycles_per_level=cpl)
                if _nn(np.linalg.norm(xf - xs)) > 1e-7 * scale * (1 + np.linalg.norm(xs)):
                    ctx.fail('cycle/%s/fixed-point' % cname, 'exact solution moved by %.3g' % np.linalg.norm(xf - xs), cs)
            # preconditioner: linear and equal to M (cpl = 1)
            if cpl == 1:
                Mop = ml.aspreconditioner(cycle=cname)
                u = np.array([rng.uniform(-1, 1) for _ in range(n0)]).astype(dt)
                v = np.array([rng.uniform(-1, 1) for _ in range(n0)]).astype(dt)
                Mu, Mv, Muv = Mop @ u, Mop @ v, Mop @ (2.5 * u + v)
                if _nn(np.linalg.norm(Muv - (2.5 * Mu + Mv))) > tol * (1 + np.linalg.norm(Muv)):
                    ctx.fail('aspreconditioner/%s/not-linear' % cname, 'M(2.5u+v) != 2.5Mu+Mv', cs)
                if _nn(np.linalg.norm(Mu - M @ u)) > tol * (1 + np.linalg.norm(Mu)):
                    ctx.fail('aspreconditioner/%s/not-M' % cname, '|Mu - M_textbook u| = %.3g' % np.linalg.norm(Mu - M @ u), cs)
                # the operator handed to a Krylov accelerator by solve(accel=..., cycle=...) is that same M
                got = {}

                def spy(A_, b_, x0=None, tol=None, maxiter=None, M=None, callback=None, **kw):
                    got['Mu'] = M @ u
                    return (np.zeros_like(b_) if x0 is None else np.array(x0)), 0
                try:
                    with warnings.catch_warnings():
                        warnings.simplefilter('ignore')
                        ml.solve(b, x0=x0, maxiter=2, cycle=cname, accel=spy)
                    if _nn(np.linalg.norm(got['Mu'] - M @ u)) > tol * (1 + np.linalg.norm(Mu)):
                        ctx.fail('accel-preconditioner/%s/not-M' % cname, 'solve(accel=..., cycle=%r) hands the accelerator an operator with '
                                 '|M u - M_textbook u| = %.3g' % (cname, np.linalg.norm(got['Mu'] - M @ u)), cs)
                    ctx.count('accel-preconditioner')
                except Exception as e:   # noqa
                    ctx.fail('accel-preconditioner/%s/raises' % cname, repr(e), cs)
            # one call with maxiter=1 is one cycle whatever the tolerance and however good the guess: a guess whose
            # residual is already below the (default) tolerance is still updated by x + M(b - A x)
            if np.linalg.cond(A0) < 1e8 and nlev > 1:
                xs = np.linalg.solve(A0, b)
                xn = xs + 1e-7 * np.array([rng.uniform(-1, 1) for _ in range(n0)]).astype(dt) * (1 + np.linalg.norm(xs))
                x1 = ml.solve(b, x0=xn, maxiter=1, cycle=cname, cycles_per_level=cpl)
                want = xn + M @ (b - A0 @ xn)
                den = np.linalg.norm(M @ (b - A0 @ xn))
                if den > 0 and _nn(np.linalg.norm(x1 - want)) > 1e-6 * den + 1e-13 * (1 + np.linalg.norm(want)):
                    ctx.fail('cycle/%s/near-solution-guess' % cname, 'x0 within the default tolerance: |solve - (x + M(b-Ax))| = %.3g, |M r| = %.3g'
                             % (np.linalg.norm(x1 - want), den), cs)
                ctx.count('near-solution-guess')
        # the preconditioner operator is additive over every vector it is handed: a real / integer / single-precision vector
        # gives what the same numbers give in the hierarchy's own type
        if nlev > 1:
            Mop = ml.aspreconditioner(cycle='V')
            vv = np.array([rng.choice([-2.0, -1.0, 0.0, 1.0, 3.0]) for _ in range(n0)])
            ref_ = Mop @ vv.astype(dt)
            for vt, tolv in ((vv.astype(float), 1e-12), (vv.astype(np.int64), 1e-12), (vv.astype(np.float32), 1e-12)):
                try:
                    got_ = np.asarray(Mop @ vt)
                except Exception as e:   # noqa
                    ctx.fail('aspreconditioner/raises', repr(e), dict(case, vector_dtype=str(vt.dtype)))
                    continue
                ctx.count('aspreconditioner-vector-dtype')
                if _nn(np.linalg.norm(got_ - ref_)) > tolv * (1 + np.linalg.norm(ref_)):
                    ctx.fail('aspreconditioner/depends-on-vector-dtype', 'M @ v for v of type %s differs from M @ v in the type of the hierarchy (%s) by %.3g'
                             % (vt.dtype, np.dtype(dt).name, np.linalg.norm(got_ - ref_)), dict(case, vector_dtype=str(vt.dtype)))


def transient(ctx):
    """one k-cycle call == k one-cycle calls also when the residual 2-norm goes UP in a cycle (a convergent cycle may
    trade a smooth error with a tiny residual for a smaller, rougher one): the loop has no business looking at trends"""
    import warnings
    import pyamg
    from pyamg.gallery import poisson
    A = poisson((300,), format='csr')      # 1-D: the smoothest mode has a residual ~1e-4 of its size
    n = A.shape[0]
    w, V = np.linalg.eigh(A.toarray())
    for omega, k in ((1.0, 4), (4.0 / 3.0, 3)):
        sm = ('jacobi', {'omega': omega})
        np.random.seed(ctx.seed)
        with warnings.catch_warnings():
            warnings.simplefilter('ignore')
            ml = pyamg.smoothed_aggregation_solver(A, max_coarse=10, presmoother=sm, postsmoother=sm)
        xs = np.random.default_rng(ctx.seed).standard_normal(n)
        b = A @ xs
        x0 = xs + V[:, 0]
        for cyc in ('V', 'W', 'F'):
            case = dict(transient=True, omega=omega, k=k, cycle=cyc)
            ctx.mark(case)
            res = []
            xk = ml.solve(b, x0=x0, maxiter=k, tol=1e-300, cycle=cyc, residuals=res)
            y = x0.copy()
            for _ in range(k):
                y = ml.solve(b, x0=y, maxiter=1, tol=1e-300, cycle=cyc)
            ctx.case(('transient', omega, k, cyc), True)
            ctx.count('transient:' + ('rise' if any(res[i + 1] > res[i] for i in range(len(res) - 1)) else 'monotone'))
            if len(res) - 1 != k or _nn(np.linalg.norm(xk - y)) > 1e-10 * (1 + np.linalg.norm(y - xs)):
                ctx.fail('cycle/%s/k-cycles-vs-k-calls' % cyc, 'one %d-cycle call performed %d cycle(s) and differs from %d one-cycle calls by %.3g (residual history %s)'
                         % (k, len(res) - 1, k, np.linalg.norm(xk - y), ['%.2e' % r for r in res]), case)


def changed_matrix(ctx):
    """after change_solve_matrix(A2) the cycle is the cycle of the new fine-level matrix: the exact solution of A2 x = b is a
    fixed point (smoothers with their own copies of the matrix -- block inverses -- must be rebuilt)"""
    import pyamg
    from pyamg.gallery import poisson
    from pyamg.relaxation.smoothing import change_smoothers
    A = sp.csr_array(poisson((6, 6), format='csr'))
    n = A.shape[0]
    rng = ctx.sub('changed')
    for pre, post in ((('block_gauss_seidel', {'sweep': 'symmetric', 'blocksize': 2}), ('block_jacobi', {'blocksize': 2})),
                      (('gauss_seidel', {'sweep': 'forward'}), ('jacobi', {'omega': 0.8})),
                      (('block_jacobi', {'blocksize': 3}), ('block_gauss_seidel', {'sweep': 'backward', 'blocksize': 3}))):
        np.random.seed(ctx.seed)
        try:
            # (two levels: only the fine level, 36 unknowns, is smoothed)
            ml = pyamg.smoothed_aggregation_solver(A, presmoother=pre, postsmoother=post, max_levels=2)
        except Exception as e:   # noqa
            ctx.notes.append('changed_matrix: constructor %r: %r' % (pre, e))
            continue
        A2 = sp.csr_array(A + 0.3 * sp.eye_array(n) + sp.diags_array(np.arange(n) % 3 * 0.2))
        ml.change_solve_matrix(A2)
        xs = np.array([rng.uniform(-1, 1) for _ in range(n)])
        b = A2 @ xs
        case = dict(change_solve_matrix=True, pre=pre, post=post)
        ctx.mark(case)
        for cyc in ('V', 'W', 'F'):
            x1 = ml.solve(b, x0=xs.copy(), maxiter=1, tol=1e-300, cycle=cyc)
            ctx.case(('changed-matrix', repr(pre), cyc), True)
            ctx.count('changed-matrix')
            if _nn(np.linalg.norm(x1 - xs)) > 1e-10 * np.linalg.norm(xs):
                ctx.fail('cycle/%s/after-change_solve_matrix' % cyc, 'the exact solution of the new system moves by %.3g (relative) in one cycle'
                         % (np.linalg.norm(x1 - xs) / np.linalg.norm(xs)), dict(case, cycle=cyc))


def run(ctx):
    ctx.corr_relations = ['MultilevelSolver.solve(b, x0, maxiter=k, cycle, cycles_per_level) == repeat_fn k (Cycle.cycle h ct cpl . b) x0 on Q (exact)',
                          'MultilevelSolver.aspreconditioner(cycle) @ v == Cycle.Mtb h ct 1 v == cycle from zero (exact)']
    exact_part(ctx)
    oracle_part(ctx)
    transient(ctx)
    changed_matrix(ctx)


def search(ctx):
    run(ctx)


def replay(ctx, data):
    ctx.notes.append('replay: re-running the oracle stream')
    oracle_part(ctx)
