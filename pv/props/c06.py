"""C06 -- Krylov solvers: status, residual history and callback tell the truth."""
import warnings

import numpy as np
import scipy.sparse as sp
from scipy.sparse.linalg import LinearOperator, aslinearoperator

from .. import coqrun as cq
from .. import gen

TECHNIQUE = 'Coq proof of the shared control skeleton (instance of the C01 loop) + control-model correspondence on observed norms + recomputation oracle'
LEVEL_TEXT = ('Kernel-checked theorems (Props/C06.v) about the Gallina control skeleton shared by cg, cr, cgne, cgnr, '
              'bicgstab, steepest_descent and minimal_residual, for every step function, recorded norm, tested norm, '
              'threshold (possibly iterate-dependent) and comparison: termination within maxiter, a converged guess is '
              'returned unchanged with status 0, status 0 iff the returned iterate passes the test, a positive status '
              'equals the iteration count, one history entry per iterate, callbacks = iterates, first success stops.  '
              'The model, run inside Coq on the norms observed in a long run, must predict status / history / callback '
              'count of re-runs with tolerances pinned at (criterion rr) or strictly between observed values and with '
              'maxiter around the stopping index; an oracle recomputes every claim of the property for all eleven entry '
              'points (incl. the GMRES family and the dispatcher), criteria, dense/sparse/LinearOperator inputs, '
              'preconditioners, real and complex data, n = 1..12.')
LEVEL_NOTE = ('The GMRES family has its own control model (Model/GmresCtl.v: outer/inner loops, break on the Givens estimate, '
              'recomputed norm after every outer iteration) with theorem C06_gmres_status_truthful; it is replayed on observed '
              'estimates with the tolerance pinned just above an inner estimate (this found F23 in fgmres, repaired).  '
              'Finiteness is an exact-arithmetic statement checked per input.  Negative status codes (breakdown '
              'detection) are outside the property.  Known findings F12-F15 are recorded, F8 repaired.')
RULE = ('solvers {cg, cr, cgne, cgnr, bicgstab, steepest_descent, minimal_residual} x criteria x {dense, CSR, '
        'LinearOperator} x {no M, SPD M} x real/complex HPD (or nonsingular) systems n=2..12: long run, then re-runs with '
        'tol pinned / between observed criteria and maxiter at k-1,k,k+1 -> KrylovCtl model (PrimFloat) must predict '
        '(status, history, #callbacks); all eleven entry points incl. gmres*/fgmres with restart: recomputation oracle '
        '(criterion, counts, last history entry, returned = last callback, converged guess, inputs untouched, finite).  '
        'Non-trivial: at least one iteration; distinct = distinct (solver, system, options).')
RULE += (' '
         'Also: each call repeated with only a callback, only a history list, and neither (same x, status, callbacks, history); fixed ill-conditioned probe (cond 1e8, tol 1e-12): status 0 must survive recomputation of the residual.')
THOROUGH_ROUNDS = 5
TRUSTED = ['NumPy/SciPy linear algebra on the oracle side', 'determinism of the solvers for identical inputs']
PARTIAL = ['GMRES family: the stagnation exit (-1) is an input of the control model, not derived; Arnoldi / Givens numerics are C07']
REFUTED = ['C06_gmres_count_after_test_refuted (fgmres as found, F23; repaired by a fix: commit)', 'C06_converged_guess_without_early_exit_refuted (steepest_descent as found; repaired by a fix: commit)']
HEADER = ('From Coq Require Import ZArith List PrimFloat.\nImport ListNotations.\n'
          'Require Import PV.Base.Ops PV.Model.KrylovRun.\n')

SIMPLE = {'cg': ['rr', 'rr+', 'MrMr', 'rMr'], 'cr': ['rr', 'rr+', 'MrMr'], 'cgne': ['rr', 'rr+', 'MrMr', 'rMr'],
          'cgnr': ['rr', 'rr+', 'MrMr', 'rMr'], 'bicgstab': ['rr', 'rr+'], 'steepest_descent': ['rr', 'rr+', 'MrMr', 'rMr'],
          'minimal_residual': [None]}
HPD_ONLY = {'cg', 'cr', 'steepest_descent', 'minimal_residual'}


def systems(rng, n, cplx, hpd):
    A = gen.poisson_like(rng, n)
    if not hpd:
        N = np.array([[rng.choice([0, 0, 0.3, -0.2]) for _ in range(n)] for _ in range(n)])
        A = A + N - np.diag(np.diag(N)) + 0.5 * np.eye(n)
    if cplx:
        u = np.exp(1j * np.array([rng.uniform(0, 6) for _ in range(n)]))
        A = np.diag(u) @ A @ np.diag(u.conj())
    b = np.array([rng.uniform(-1, 1) for _ in range(n)])
    if cplx:
        b = b + 1j * np.array([rng.uniform(-1, 1) for _ in range(n)])
    return A, b


def crit_values(name, crit, A, M, b, x):
    """(hist, crit, thr_factor_parts) recomputed from an iterate"""
    r = b - A @ x
    z = M @ r if M is not None else r
    if name == 'minimal_residual':
        return np.linalg.norm(z), np.linalg.norm(z)
    hist = np.linalg.norm(r)
    if crit in ('rr', 'rr+'):
        return hist, hist
    if crit == 'MrMr':
        if name == 'cgne':
            return hist, np.linalg.norm(z)
        if name == 'cgnr':
            return hist, np.linalg.norm(M @ (A.conj().T @ r)) if M is not None else np.linalg.norm(A.conj().T @ r)
        return hist, np.linalg.norm(z)
    if crit == 'rMr':
        if name == 'cgnr':
            rh = A.conj().T @ r
            zz = M @ rh if M is not None else rh
            return hist, np.sqrt(abs(np.vdot(rh, zz)))
        return hist, np.sqrt(abs(np.vdot(r, z)))
    raise ValueError(crit)


def threshold(name, crit, A, M, b, x, tol):
    from pyamg.util.linalg import norm as pnorm      # the solvers' own norm (may differ from NumPy's in the last bit)
    normb = pnorm(b)
    if name == 'minimal_residual':
        return tol * (1.0 if normb == 0 else np.linalg.norm(M @ b if M is not None else b))
    if normb == 0.0:
        normb = 1.0
    if crit == 'rr':
        return tol * normb
    if crit == 'rr+':
        return tol * (np.linalg.norm(np.ravel(A)) * np.linalg.norm(x) + normb)
    if crit == 'MrMr':
        return tol * np.linalg.norm(M @ b if M is not None else b)
    return tol


_CALLS = [0]


def call(fn, Aarg, b, x0, tol, maxiter, crit, M, **kw):
    _CALLS[0] += 1
    # every third call hands over a history list that is already in use: the solver starts the history afresh
    res, cbs = ([123.0, 4.5, 0.25] if _CALLS[0] % 3 == 0 else []), []
    args = dict(x0=x0, tol=tol, maxiter=maxiter, M=M, residuals=res, callback=lambda xk: cbs.append(np.array(xk, copy=True)))
    if crit is not None:
        args['criteria'] = crit
    args.update(kw)
    with warnings.catch_warnings():
        warnings.simplefilter('ignore')
        x, st = fn(Aarg, b, **args)
    return x, st, res, cbs


def wrap(Ad, fmt):
    if fmt == 'dense':
        return Ad
    if fmt == 'csr':
        return sp.csr_array(Ad)
    return aslinearoperator(Ad)


def oracle(ctx, name, crit, Ad, Md, b, x0, tol, maxiter, x, st, res, cbs, case, hist_is_Mr=False):
    sig = name + '/'
    xs0 = np.zeros_like(b) if x0 is None else x0
    if not np.all(np.isfinite(x)):
        ctx.fail(sig + 'non-finite', 'returned x contains NaN/inf (status %r)' % (st,), case)
        return
    if st < 0:
        ctx.fail(sig + 'negative-status', 'status %r on a well-conditioned system' % (st,), case)
        return
    if len(res) != len(cbs) + 1:
        ctx.fail(sig + 'history-length', '%d history entries for %d iterates (+ initial)' % (len(res), len(cbs)), case)
    if cbs and not np.allclose(x, cbs[-1], rtol=0, atol=0):
        ctx.fail(sig + 'returned-not-last-iterate', 'returned x differs from the last callback argument', case)
    if not cbs and x0 is not None and not np.array_equal(np.ravel(x), np.ravel(x0)):
        ctx.fail(sig + 'guess-not-returned-unchanged', 'no iteration was run but x != x0', case)
    hv, cv = crit_values(name, crit, Ad, Md, b, np.ravel(x)) if name in SIMPLE else (None, None)
    if name in SIMPLE:
        thr = threshold(name, crit, Ad, Md, b, np.ravel(x), tol)
        scale = max(abs(cv), abs(thr), 1e-300)
        if st == 0 and not cv < thr + 1e-7 * scale + 1e-13:
            ctx.fail(sig + 'status0-criterion-not-met', 'status 0 but criterion %.6g >= threshold %.6g' % (cv, thr), case)
        if res and abs(res[-1] - hv) > 1e-6 * max(hv, abs(res[0]), 1e-300) + 1e-12:
            ctx.fail(sig + 'last-history-entry', 'residuals[-1]=%.6g but recomputed %.6g' % (res[-1], hv), case)
    else:
        r = b - Ad @ np.ravel(x)
        z = Md @ r if (Md is not None and hist_is_Mr) else r
        nz = np.linalg.norm(z)
        nb = np.linalg.norm(b)
        ref = 1.0 if nb == 0 else (np.linalg.norm(Md @ b) if (Md is not None and hist_is_Mr) else nb)
        if st == 0 and not nz < tol * ref * (1 + 1e-6) + 1e-12:
            ctx.fail(sig + 'status0-criterion-not-met', 'status 0 but %.6g >= %.6g' % (nz, tol * ref), case)
        if res and len(res) == len(cbs) + 1 and abs(res[-1] - nz) > 1e-6 * max(nz, abs(res[0]), 1e-300) + 1e-12:
            ctx.fail(sig + 'last-history-entry', 'residuals[-1]=%.6g but recomputed %.6g' % (res[-1], nz), case)
    if st > 0 and st != len(cbs):
        ctx.fail(sig + 'status-not-iteration-count', 'status %r but %d iterations' % (st, len(cbs)), case)
    # every history entry belongs to the iterate handed to the callback at that step (well-conditioned systems: the recurrence /
    # Givens estimates agree with the recomputed norms to many digits)
    if len(res) == len(cbs) + 1 and cbs:
        for k_, xk_ in enumerate(cbs):
            if not np.all(np.isfinite(xk_)):
                break
            if name in SIMPLE:
                hk_ = crit_values(name, crit, Ad, Md, b, np.ravel(xk_))[0]
            else:
                rk_ = b - Ad @ np.ravel(xk_)
                hk_ = np.linalg.norm(Md @ rk_ if (Md is not None and hist_is_Mr) else rk_)
            if abs(res[k_ + 1] - hk_) > 1e-5 * max(hk_, abs(res[0]), 1e-300) + 1e-11:
                ctx.fail(sig + 'history-entry-not-of-callback-iterate', 'residuals[%d] = %.6g but the iterate passed to the callback at that step has %.6g'
                         % (k_ + 1, res[k_ + 1], hk_), case)
                break


def run(ctx):
    from pyamg import krylov
    rng = ctx.sub('sys')
    cases, meta = [], []
    nsys = 16 if not ctx.thorough else 60
    if ctx.search:
        nsys = 40
    K = 6
    for si in range(nsys):
        n = rng.choice([2, 3, 5, 8, 12])
        cplx = rng.random() < 0.3
        for name, crits in SIMPLE.items():
            fn = getattr(krylov, name)
            hpd = name in HPD_ONLY
            Ad, b = systems(rng, n, cplx, hpd or rng.random() < 0.5)
            useM = rng.random() < 0.5
            Md = np.diag(1.0 / np.abs(np.diag(Ad))) if useM else None
            if name == 'cgnr' and useM:
                Md = np.diag(1.0 / np.sum(np.abs(Ad) ** 2, axis=0))
            if name == 'cgne' and useM:
                Md = np.diag(1.0 / np.sum(np.abs(Ad) ** 2, axis=1))
            fmt = rng.choice(['dense', 'csr', 'linop'])
            if name in ('cgne', 'cgnr') and fmt == 'linop':
                fmt = 'csr'
            crit = rng.choice(crits)
            if crit == 'rr+' and fmt == 'linop':
                fmt = 'dense'
            x0 = None if rng.random() < 0.4 else np.array([rng.uniform(-1, 1) for _ in range(n)]).astype(b.dtype)
            if crit == 'rr+' and (x0 is None or rng.random() < 0.6):
                # 'rr+' depends on ||x_k||: a guess far from the solution makes the threshold move along the iteration
                x0 = (10.0 ** rng.choice([2, 3])) * np.array([rng.uniform(-1, 1) for _ in range(n)]).astype(b.dtype)
            base = dict(solver=name, criteria=crit, n=n, complex=cplx, format=fmt, M=useM, A=[[complex(v) for v in r] for r in Ad] if cplx else Ad.tolist(),
                        b=[complex(v) for v in b] if cplx else b.tolist(), x0=None if x0 is None else [complex(v) for v in x0])
            ctx.mark(base)
            Aarg = wrap(Ad, fmt)
            snap = (Ad.copy(), b.copy(), None if x0 is None else x0.copy(), None if Md is None else Md.copy())
            try:
                x, st, full, xs = call(fn, Aarg, b, x0, 1e-300, K, crit, Md)
            except Exception as e:   # noqa
                ctx.fail(name + '/raises', repr(e), base)
                continue
            if not (np.array_equal(snap[0], Ad) and np.array_equal(snap[1], b) and (x0 is None or np.array_equal(snap[2], x0))
                    and (Md is None or np.array_equal(snap[3], Md))):
                ctx.fail(name + '/inputs-modified', 'A, b, x0 or M changed', base)
            # the test applied to the INITIAL guess is the solver's own criterion (with its preconditioner): a guess that
            # meets it comes back unchanged with status 0, one that misses it is iterated on
            if np.linalg.cond(Ad) < 1e6:
                xsol = np.linalg.solve(Ad, b)
                for crit_ in crits:
                    # every criterion of the solver; the preconditioned ones with a preconditioner whose scale is far
                    # from one (the criteria are invariant under scaling M, a mixed-up norm is not)
                    Mg = Md
                    if crit_ in ('MrMr', 'rMr'):
                        Mg = (Md if Md is not None else np.diag(1.0 / np.abs(np.diag(Ad)))) * rng.choice([100.0, 0.01])
                        if name == 'cgnr':
                            Mg = np.diag(1.0 / np.sum(np.abs(Ad) ** 2, axis=0)) * rng.choice([100.0, 0.01])
                        if name == 'cgne':
                            Mg = np.diag(1.0 / np.sum(np.abs(Ad) ** 2, axis=1)) * rng.choice([100.0, 0.01])
                    for dist in (0.0, 1e-9, 1e-6, 1e-3):
                        xg = (xsol + dist * np.array([rng.uniform(-1, 1) for _ in range(n)])).astype(b.dtype)
                        tol0 = 1e-6
                        try:
                            _, cv0 = crit_values(name, crit_, Ad, Mg, b, xg)
                            thr0 = threshold(name, crit_, Ad, Mg, b, xg, tol0)
                            xr, st0, res0, cbs0 = call(fn, Aarg, b, xg.copy(), tol0, 3, crit_, Mg)
                        except Exception as e:   # noqa
                            ctx.fail(name + '/raises', repr(e), dict(base, variant='near-solution-guess', criteria=crit_))
                            continue
                        cs0 = dict(base, variant='near-solution-guess', criteria=crit_, distance=dist, tol=tol0,
                                   M_diag=None if Mg is None else np.diag(Mg).tolist())
                        ctx.count('near-solution-guess:' + str(crit_))
                        if cv0 < thr0 * (1 - 1e-3) and (st0 != 0 or len(cbs0) != 0 or not np.array_equal(np.ravel(xr), np.ravel(xg))):
                            ctx.fail(name + '/converged-guess', 'criterion %s: guess meets it (%.3g < %.3g) but status=%r, %d iterations, |x-x0|=%.3g'
                                     % (crit_, cv0, thr0, st0, len(cbs0), np.linalg.norm(np.ravel(xr) - np.ravel(xg))), cs0)
                        if cv0 > thr0 * (1 + 1e-3) and len(cbs0) == 0 and st0 >= 0:
                            ctx.fail(name + '/unconverged-guess-accepted', 'criterion %s: guess misses it (%.3g >= %.3g) but no iteration was run (status %r)'
                                     % (crit_, cv0, thr0, st0), cs0)
                    # the same question in other units (right-hand side and guess scaled by 2^-60 / 2^55): the criteria are relative
                    # (except 'rMr', which is documented as the absolute test sqrt(r^H M r) < tol)
                    for unit in ((2.0 ** -60, 2.0 ** 55) if crit_ != 'rMr' else ()):
                        bu = (b * unit).astype(b.dtype)
                        for dist in (0.0, 1e-2):
                            xgu = ((xsol + dist * np.array([rng.uniform(-1, 1) for _ in range(n)])) * unit).astype(b.dtype)
                            for guess in ((xgu, 'given'),) + (((None, 'omitted'),) if dist > 0 else ()):
                                xg_ = guess[0]
                                xeff = np.zeros_like(bu) if xg_ is None else xg_
                                tol0 = 1e-6
                                try:
                                    _, cvu = crit_values(name, crit_, Ad, Mg, bu, xeff)
                                    thru = threshold(name, crit_, Ad, Mg, bu, xeff, tol0)
                                    xr, stu, resu, cbsu = call(fn, Aarg, bu, None if xg_ is None else xg_.copy(), tol0, 3, crit_, Mg)
                                except Exception as e:   # noqa
                                    ctx.fail(name + '/raises', repr(e), dict(base, variant='other-units', criteria=crit_))
                                    continue
                                csu = dict(base, variant='other-units', criteria=crit_, unit=unit, distance=dist, guess=guess[1], tol=tol0)
                                ctx.count('other-units:' + str(crit_))
                                if cvu > thru * (1 + 1e-3) and len(cbsu) == 0 and stu >= 0:
                                    ctx.fail(name + '/unconverged-guess-accepted/other-units', 'b of size %.1e, criterion %s: the start misses it (%.3g >= %.3g) but no iteration was run (status %r)'
                                             % (np.linalg.norm(bu), crit_, cvu, thru, stu), csu)
                                if cvu < thru * (1 - 1e-3) and (stu != 0 or len(cbsu) != 0):
                                    ctx.fail(name + '/converged-guess/other-units', 'b of size %.1e, criterion %s: the guess meets it but status=%r after %d iterations'
                                             % (np.linalg.norm(bu), crit_, stu, len(cbsu)), csu)
            its = [np.zeros_like(b) if x0 is None else x0] + xs
            if len(full) != len(its) or not all(np.all(np.isfinite(v)) for v in its):
                oracle(ctx, name, crit, Ad, Md, b, x0, 1e-300, K, x, st, full, xs, dict(base, tol=1e-300, maxiter=K))
                continue
            cv = [crit_values(name, crit, Ad, Md, b, v)[1] for v in its]
            if crit == 'rr' or name == 'minimal_residual':
                cv = list(full)          # the solver's own numbers: exact control model
            # pass 2
            plans = []
            for j in sorted({1, min(2, len(its) - 1), rng.randrange(1, len(its))}):
                if not (0 < cv[j] < cv[j - 1]):
                    continue
                if crit == 'rr':
                    from pyamg.util.linalg import norm as pnorm
                    nb = pnorm(b) or 1.0
                    t = cv[j] / nb
                    for cand in (t, np.nextafter(t, 1), np.nextafter(t, 0)):
                        if cand * nb == cv[j]:
                            plans.append((float(cand), j, 'tie'))
                            plans.append((float(np.nextafter(cand, 1)), j, 'above'))
                            break
                if cv[j] < 1e-8 * cv[0]:
                    continue          # at rounding level the recomputed criterion is not the solver's
                mid = np.sqrt(cv[j] * cv[j - 1])
                th_at = threshold(name, crit, Ad, Md, b, np.ravel(its[j]), 1.0)
                if th_at > 0:
                    plans.append((float(mid / th_at), j, 'between'))
            for tol, j, tag in plans:
                if not (0 < tol < 1) and crit != 'rMr':
                    continue
                for mi in {max(1, j - 1), j, min(K, j + 1)}:
                    case = dict(base, tol=tol, maxiter=mi, tag=tag)
                    ctx.mark(case)
                    try:
                        x, st, res, cbs = call(fn, Aarg, b, x0, tol, mi, crit, Md)
                    except Exception as e:   # noqa
                        ctx.fail(name + '/raises', repr(e), case)
                        continue
                    ctx.case((name, crit, si, tol, mi), True, sample=dict(solver=name, criteria=crit, tol=tol, maxiter=mi, status=int(st),
                                                                         residuals=[float(v) for v in res]) if len(ctx.samples) < 4 else None)
                    ctx.count('solver:' + name)
                    ctx.count('tag:' + tag)
                    oracle(ctx, name, crit, Ad, Md, b, x0, tol, mi, x, st, res, cbs, case)
                    if st < 0 or not np.all(np.isfinite(x)):
                        continue
                    ts = [threshold(name, crit, Ad, Md, b, np.ravel(v), tol) for v in its]
                    # robust only if no criterion value sits within rounding of its threshold (ties only for rr)
                    if tag == 'between' and any(abs(c - t) <= 1e-9 * max(c, t) for c, t in zip(cv, ts)):
                        continue
                    mi_eff = mi
                    if name in ('cgne', 'cgnr') and mi > 1.3 * n:      # the solver clamps maxiter to ceil(1.3 n) + 2
                        mi_eff = int(np.ceil(1.3 * n)) + 2
                    if mi_eff > len(full) - 1:
                        continue                                       # beyond the observed long run
                    cases.append('(%s, %s, %s, %d%%nat, true, (%d%%nat, %s, %d%%nat))' % (
                        cq.fll(full), cq.fll(cv), cq.fll(ts), mi_eff, int(st), cq.fll(res), len(cbs)))
                    meta.append((case, dict(status=int(st), residuals=[float(v) for v in res], callbacks=len(cbs))))
    ctx.corr_relations = ['pyamg.krylov.{cg,cr,cgne,cgnr,bicgstab,steepest_descent,minimal_residual} (status, history, #callbacks) == '
                          'KrylovCtl.krylov with PrimFloat.ltb on observed (history, criterion, threshold)']
    bad, errs = cq.run_cases('c06', HEADER, 'caseT', 'chk', cases)
    for e in errs:
        ctx.disagree('C06 model evaluation', None, e, None)
    for i in bad[:20]:
        case, out = meta[i]
        ctx.disagree('krylov control skeleton (%s)' % case['solver'], case, 'KrylovCtl model predicts otherwise', out)
    gmres_control(ctx)
    all_solvers(ctx)


GHEADER = ('From Coq Require Import ZArith List PrimFloat.\nImport ListNotations.\n'
           'Require Import PV.Base.Ops PV.Model.GmresRun.\nOpen Scope Z_scope.\n')


def gmres_control(ctx):
    """GMRES family: the control model (outer/inner loops, Givens estimates) replayed on observed norms, with
    tolerances pinned just above an inner estimate (so that the inner loop breaks there)"""
    from pyamg import krylov
    from pyamg.util.linalg import norm as pnorm
    rng = ctx.sub('gmres-ctl')
    cases, meta = [], []
    nsys = 6 if not ctx.thorough else 40
    for si in range(nsys):
        n = rng.choice([6, 9, 14])
        Ad, b = systems(rng, n, False, rng.random() < 0.5)
        for name in ('gmres_mgs', 'gmres_householder', 'fgmres'):
            fn = getattr(krylov, name)
            r = rng.choice([3, 4, 5])
            m = rng.choice([1, 2, 3])
            useM = rng.random() < 0.5
            Md = np.diag(1.0 / np.abs(np.diag(Ad))) if useM else None
            x0 = np.array([rng.uniform(-1, 1) for _ in range(n)])
            base = dict(solver=name, n=n, restart=r, maxiter=m, M=useM, A=Ad.tolist(), b=b.tolist(), x0=x0.tolist())
            ctx.mark(base)

            def run(tol):
                res, cbs = [], []
                with warnings.catch_warnings():
                    warnings.simplefilter('ignore')
                    x, st = fn(Ad, b, x0=x0.copy(), tol=tol, restart=r, maxiter=m, M=Md, residuals=res,
                               callback=lambda xk: cbs.append(1))
                return x, st, [float(v) for v in res], len(cbs)
            try:
                _, st_long, full, _ = run(1e-300)
            except Exception as e:   # noqa
                ctx.fail(name + '/raises', repr(e), base)
                continue
            if st_long < 0 or len(full) != 1 + m * r or not np.all(np.isfinite(full)):
                continue                       # exact convergence / stagnation exit in the long run: nothing to replay
            nb = pnorm(b)
            if name == 'fgmres':
                scale = nb if nb != 0 else 1.0
            else:
                scale = pnorm(Md @ b if Md is not None else b) if nb != 0 else 1.0
            est = [[full[1 + o * r + i] for i in range(r - 1)] for o in range(m)]
            tru_full = [full[1 + o * r + r - 1] for o in range(m)]
            for (o_, i_) in [(o, i) for o in range(m) for i in range(r - 1)]:
                e = est[o_][i_]
                tol = np.nextafter(e / scale, 1)
                k = 0
                while not (e < tol * scale) and k < 8:
                    tol = np.nextafter(tol, 1)
                    k += 1
                thr = tol * scale
                if not (e < thr) or full[0] < thr:
                    continue
                # the first place where the run with this tolerance leaves the long run must be the break at (o_, i_)
                earlier = [est[o][i] for o in range(o_ + 1) for i in range(r - 1) if (o, i) < (o_, i_)] + tru_full[:o_]
                if any(v < thr for v in earlier):
                    continue
                case = dict(base, tol=float(tol), break_at=[o_, i_])
                ctx.mark(case)
                try:
                    x, st, res, ncb = run(float(tol))
                except Exception as e2:   # noqa
                    ctx.fail(name + '/raises', repr(e2), case)
                    continue
                pos = 1 + o_ * r + i_            # index of the recomputed norm appended after the break
                if st < 0 or len(res) <= pos:
                    continue
                after = res[pos]
                if not (after < thr) and o_ < m - 1:
                    continue                   # the next outer iteration starts from a state the long run never had
                ctx.case((name, si, o_, i_), True)
                ctx.count('gmres-ctl:' + name)
                ctx.count('gmres-ctl:break-%s' % ('converged' if after < thr else 'not-converged-last-outer'))
                ts = [[float('nan')] * (r + 1) for _ in range(o_ + 1)]
                for o in range(o_):
                    ts[o][r] = tru_full[o]
                ts[o_][i_ + 1] = after
                cases.append('(%s, %s, %d%%nat, %d%%nat, %s, %s, (%s, %s, %d%%nat))' % (
                    cq.fl(thr), cq.fl(full[0]), m, r, cq.lst([cq.fll(row) for row in est[:o_ + 1]]),
                    cq.lst([cq.fll(row) for row in ts]), cq.z(int(st)), cq.fll(res), ncb))
                meta.append((case, dict(status=int(st), residuals=res, callbacks=ncb)))
                # independent restatement for a failing input: status 0 needs the recomputed norm below the threshold, a
                # positive status is the number of iterates delivered
                if st == 0 and not (res[-1] < thr):
                    ctx.fail(name + '/pinned/status0-criterion-not-met', 'status 0 but the last recomputed norm %.17g is not below tol*norm = %.17g'
                             % (res[-1], thr), case)
                if st > 0 and st != ncb:
                    ctx.fail(name + '/pinned/status-not-iteration-count', 'status %d but %d iterates were delivered' % (st, ncb), case)
    ctx.corr_relations = list(getattr(ctx, 'corr_relations', [])) + [
        'pyamg.krylov.{gmres_mgs,gmres_householder,fgmres} (status, history, #callbacks) == GmresCtl.gmres_ctl with '
        'PrimFloat.ltb on the observed estimates / recomputed norms (tolerance pinned above an inner estimate)']
    bad, errs = cq.run_cases('c06g', GHEADER, 'caseT', 'chk', cases)
    for e in errs:
        ctx.disagree('C06 GMRES model evaluation', None, e, None)
    for i in bad[:20]:
        case, out = meta[i]
        ctx.disagree('GMRES control skeleton (%s)' % case['solver'], case, 'GmresCtl model predicts otherwise', out)


def all_solvers(ctx):
    """all eleven entry points: recomputation oracle, converged guess, n = 1, zero rhs, restart"""
    from pyamg import krylov
    rng = ctx.sub('all')
    names = ['cg', 'cr', 'cgne', 'cgnr', 'bicgstab', 'gmres', 'gmres_mgs', 'gmres_householder', 'fgmres',
             'minimal_residual', 'steepest_descent']
    reps = 3 if not ctx.thorough else 15
    for rep in range(reps):
        for name in names:
            fn = getattr(krylov, name)
            for n in (1, 2, 6, 11):
                cplx = rng.random() < 0.3
                hpd = name in HPD_ONLY
                Ad, b = systems(rng, n, cplx, hpd or rng.random() < 0.5)
                useM = rng.random() < 0.5 and n > 1
                Md = np.diag(1.0 / np.abs(np.diag(Ad))) if useM else None
                if name == 'cgnr' and useM:
                    Md = np.diag(1.0 / np.sum(np.abs(Ad) ** 2, axis=0))
                if name == 'cgne' and useM:
                    Md = np.diag(1.0 / np.sum(np.abs(Ad) ** 2, axis=1))
                fmt = rng.choice(['dense', 'csr', 'linop'])
                kw = {}
                if name in ('gmres', 'gmres_mgs', 'gmres_householder', 'fgmres'):
                    kw = rng.choice([{}, {'restart': 2, }, {'restart': 3}])
                    if name == 'gmres':
                        kw = dict(kw, orthog=rng.choice(['mgs', 'householder']))
                for variant in ('random-x0', 'exact-x0', 'zero-rhs', 'unit-rhs', 'zero-rhs-nonzero-x0'):
                    bb = b
                    if variant == 'zero-rhs-nonzero-x0':
                        # b = 0 but the guess is not the solution: the solver has to iterate (thresholds with ||b|| := 1)
                        bb = np.zeros_like(b)
                        x0 = np.array([rng.uniform(-1, 1) for _ in range(n)]).astype(b.dtype)
                    elif variant == 'exact-x0':
                        x0 = np.linalg.solve(Ad, b)
                    elif variant == 'zero-rhs':
                        bb = np.zeros_like(b)
                        x0 = np.zeros_like(b)
                    elif variant == 'unit-rhs':
                        # exact zeros in the leading entries of the initial residual (sign / pivot special cases)
                        bb = np.zeros_like(b)
                        bb[-1] = 1.0
                        x0 = np.zeros_like(b)
                    else:
                        x0 = np.array([rng.uniform(-1, 1) for _ in range(n)]).astype(b.dtype)
                    tol = rng.choice([1e-2, 1e-6, 1e-10])
                    mi = rng.choice([1, 3, 2 * n + 3])
                    case = dict(solver=name, n=n, complex=cplx, format=fmt, M=useM, variant=variant, tol=tol, maxiter=mi, kwargs=kw,
                                A=[[complex(v) for v in r] for r in Ad], b=[complex(v) for v in bb], x0=[complex(v) for v in x0])
                    ctx.mark(case)
                    sigx = name + ('/LinearOperator' if fmt == 'linop' and name in ('cgne', 'cgnr') else '')
                    crit = None
                    try:
                        x, st, res, cbs = call(fn, wrap(Ad, fmt), bb, x0, tol, mi, None, Md, **kw)
                    except Exception as e:   # noqa
                        ctx.fail(sigx + '/raises', repr(e), case)
                        continue
                    ctx.case((name, rep, n, variant, fmt, tol, mi, str(kw)), n > 1)
                    ctx.count('all:' + name)
                    suffix = '/n=1' if n == 1 else ''
                    # findings are classified by where they arise
                    sub = core_ctx(ctx, name + suffix + ('/exact-x0' if variant == 'exact-x0' else '') + ('/zero-rhs' if variant == 'zero-rhs' else ''))
                    crit_used = 'rr' if name in SIMPLE and name != 'minimal_residual' else None
                    oracle(sub, name, crit_used, Ad, Md, bb, x0, tol, mi, x, st, res, cbs, case,
                           hist_is_Mr=name in ('gmres', 'gmres_mgs', 'gmres_householder'))
                    if variant in ('exact-x0', 'zero-rhs') and np.all(np.isfinite(x)):
                        if st != 0 or not np.allclose(np.ravel(x), np.ravel(x0), rtol=1e-9, atol=1e-12):
                            sub.fail(name + '/converged-guess', 'x0 meets the criterion but status=%r, |x-x0|=%.3g'
                                     % (st, np.linalg.norm(np.ravel(x) - np.ravel(x0))), case)
                    # the optional outputs are independent: the same call with only a callback, only a history list,
                    # or neither returns the same (x, status), invokes the callback as often and fills the same history
                    if variant == 'random-x0' and st >= 0 and np.all(np.isfinite(x)):
                        for which in ('callback-only', 'residuals-only', 'neither'):
                            res2, cbs2 = [], []
                            args = dict(x0=x0.copy(), tol=tol, maxiter=mi, M=Md)
                            if which == 'callback-only':
                                args['callback'] = lambda xk: cbs2.append(np.array(xk, copy=True))
                            if which == 'residuals-only':
                                args['residuals'] = res2
                            args.update(kw)
                            try:
                                with warnings.catch_warnings():
                                    warnings.simplefilter('ignore')
                                    x2, st2 = fn(wrap(Ad, fmt), bb, **args)
                            except Exception as e:   # noqa
                                sub.fail(name + '/' + which + '/raises', repr(e), dict(case, outputs=which))
                                continue
                            ctx.count('outputs:' + which)
                            if st2 != st or not np.array_equal(np.ravel(x2), np.ravel(x)):
                                sub.fail(name + '/' + which + '/result-differs', 'status %r vs %r, |dx| = %.3g' % (st2, st, np.linalg.norm(np.ravel(x2) - np.ravel(x))),
                                         dict(case, outputs=which))
                            if which == 'callback-only' and (len(cbs2) != len(cbs) or any(not np.array_equal(a, c) for a, c in zip(cbs2, cbs))):
                                sub.fail(name + '/callback-only/callbacks-differ', '%d callbacks without a history list, %d with one' % (len(cbs2), len(cbs)),
                                         dict(case, outputs=which))
                            if which == 'residuals-only' and [float(v) for v in res2] != [float(v) for v in res]:
                                sub.fail(name + '/residuals-only/history-differs', 'history %s without a callback, %s with one' % (res2[:4], res[:4]),
                                         dict(case, outputs=which))
    # fixed ill-conditioned probe (independent of the run seed): with cond(A) = 1e8 and tol = 1e-12 the recursively
    # updated residual drifts away from b - A x; a solver that reports status 0 must still meet its criterion when the
    # residual is recomputed (factor 10 slack), and the last history entry must belong to the returned x
    prng = np.random.default_rng(0)
    nprobe = 40
    dgl = np.logspace(0, 8, nprobe)
    Qp, _ = np.linalg.qr(prng.standard_normal((nprobe, nprobe)))
    Ap_ = (Qp * dgl) @ Qp.T
    Ap_ = 0.5 * (Ap_ + Ap_.T)
    bp = prng.standard_normal(nprobe)
    for name in ('cg', 'cr', 'steepest_descent', 'minimal_residual', 'cgnr', 'cgne', 'bicgstab', 'gmres_mgs', 'gmres_householder', 'fgmres'):
        fn = getattr(krylov, name)
        Asys = Ap_ if name not in ('cgnr', 'cgne') else (Qp * np.sqrt(dgl)) @ Qp.T
        case = dict(solver=name, probe='ill-conditioned cond=1e8 n=40 default_rng(0)', tol=1e-12, maxiter=1000)
        res = []
        try:
            with warnings.catch_warnings():
                warnings.simplefilter('ignore')
                x, st = fn(Asys, bp, tol=1e-12, maxiter=1000, residuals=res)
        except Exception as e:   # noqa
            ctx.fail(name + '/ill-conditioned/raises', repr(e), case)
            continue
        ctx.case((name, 'ill-conditioned-probe'), True)
        ctx.count('probe:ill-conditioned')
        if not np.all(np.isfinite(x)):
            continue
        true = np.linalg.norm(bp - Asys @ x)
        nb = np.linalg.norm(bp)
        # (the GMRES family recomputes b - A x before it reports success: no slack there)
        if st == 0 and not true < (10 if 'gmres' not in name else 1 + 1e-6) * 1e-12 * nb:
            ctx.fail(name + '/ill-conditioned/status0-criterion-not-met', 'status 0 but recomputed |b - A x| / |b| = %.3g for tol = 1e-12' % (true / nb), case)
        if res and not (0.1 * true <= res[-1] <= 10 * true) and true > 1e-13 * nb:
            ctx.fail(name + '/ill-conditioned/last-history-entry', 'residuals[-1] = %.3g but recomputed %.3g' % (res[-1], true), case)
    # the same question with a multigrid preconditioner on a large 1-D Poisson problem (the Givens estimate of flexible GMRES
    # drifts below the true residual there): status 0 must hold for the RECOMPUTED residual of the returned iterate
    try:
        import pyamg
        from pyamg.gallery import poisson as _pois
        for Nl in (3000, 5000):
            Al = sp.csr_array(_pois((Nl,), format='csr'))
            np.random.seed(0)
            Ml = pyamg.smoothed_aggregation_solver(Al).aspreconditioner()
            bl = np.random.default_rng(0).random(Nl)
            for name in ('fgmres', 'gmres_mgs', 'gmres_householder'):
                for tol_ in (1e-10, 1e-11, 1e-12):
                    case = dict(solver=name, probe='1-D Poisson n=%d, SA preconditioner' % Nl, tol=tol_)
                    with warnings.catch_warnings():
                        warnings.simplefilter('ignore')
                        x, st = getattr(krylov, name)(Al, bl, tol=tol_, maxiter=60, M=Ml)
                    ctx.case((name, 'preconditioned-probe', Nl, tol_), True)
                    ctx.count('probe:preconditioned-ill-conditioned')
                    r_ = bl - Al @ x
                    if name == 'fgmres':
                        val, ref = np.linalg.norm(r_), np.linalg.norm(bl)
                    else:
                        val, ref = np.linalg.norm(Ml @ r_), np.linalg.norm(Ml @ bl)
                    if st == 0 and not val < tol_ * ref * (1 + 1e-6):
                        ctx.fail(name + '/preconditioned-probe/status0-criterion-not-met',
                                 'status 0 but the recomputed criterion is %.3g > tol = %g' % (val / ref, tol_), case)
    except ImportError:
        pass
    # corpus: normal-equation solvers on a LinearOperator (F13)
    for name in ('cgne', 'cgnr'):
        Ad, b = systems(ctx.sub('f13'), 3, False, True)
        case = dict(solver=name, format='linop', A=Ad.tolist(), b=b.tolist())
        try:
            x, st, res, cbs = call(getattr(krylov, name), aslinearoperator(Ad), b, None, 1e-8, 5, None, None)
            oracle(core_ctx(ctx, name + '/LinearOperator'), name, 'rr', Ad, None, b, None, 1e-8, 5, x, st, res, cbs, case)
        except Exception as e:   # noqa
            ctx.fail(name + '/LinearOperator/raises', repr(e), case)
        ctx.case((name, 'linop-corpus'), True)
    # MrMr with zero right-hand side (F12)
    for name in ('cg', 'cr'):
        fn = getattr(krylov, name)
        Ad, b = systems(ctx.sub('f12'), 4, False, True)
        Md = np.diag(1.0 / np.diag(Ad))
        z = np.zeros(4)
        case = dict(solver=name, criteria='MrMr', variant='zero-rhs')
        try:
            x, st, res, cbs = call(fn, Ad, z, z.copy(), 1e-8, 5, 'MrMr', Md)
            sub = core_ctx(ctx, name + '/MrMr/zero-rhs')
            oracle(sub, name, 'MrMr', Ad, Md, z, z, 1e-8, 5, x, st, res, cbs, case)
            if np.all(np.isfinite(x)) and (st != 0 or np.linalg.norm(x) != 0):
                sub.fail(name + '/converged-guess', 'zero guess for zero rhs not returned with status 0', case)
        except Exception as e:   # noqa
            ctx.fail(name + '/MrMr/zero-rhs/raises', repr(e), case)
        ctx.case((name, 'MrMr-zero-rhs'), True)


class core_ctx:
    """prefix failure signatures with the situation in which they arose"""

    def __init__(self, ctx, prefix):
        self.ctx, self.prefix = ctx, prefix

    def fail(self, sig, what, case):
        tail = sig.split('/', 1)[1] if '/' in sig else sig
        self.ctx.fail(self.prefix + '/' + tail, what, case)


def search(ctx):
    run(ctx)


def replay(ctx, data):
    ctx.search = True
    all_solvers(ctx)
