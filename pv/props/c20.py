"""C20 -- gallery operators equal the discretisations they document."""
import itertools

import numpy as np
import scipy.sparse as sp

from .. import coqrun as cq

def _nn(v):
    """NaN counts as 'exceeds every bound' in the oracle comparisons"""
    return np.inf if np.isnan(v) else v


TECHNIQUE = 'Coq proof (every grid, every dimension, every stencil) that the stencil_grid algorithm equals its specification + ring proofs of the diffusion stencils + exhaustive small-grid correspondence'
LEVEL_TEXT = ('Kernel-checked theorems (Props/C20.v): the Gallina transcription of stencil_grid (row-major nonzeros, '
              'strides, per-diagonal boundary zeroing by slices, dropping of out-of-range diagonals, summation of equal '
              'offsets, DIA semantics) equals the specification "row p holds the stencil entries of the neighbours that '
              'exist" on EVERY grid -- any number of dimensions, any positive extents, 1-wide and non-square included -- and for every '
              'stencil of the grid\'s dimension, whatever its extents and entries (C20_stencil_grid_is_spec: induction; the flat index <-> '
              'multi-index bijection C20_grid_points_row_major; the earlier bounded vm_compute theorem is kept); each pair of grid points receives exactly the stencil entry at position q - p + centre (C20_stencil_entry_is_the_neighbour_entry); the Gallina transcription of poisson() has on every grid in any dimension the closed-form entries (2N or 3^N-1, -1 for existing neighbours), is symmetric, has a positive diagonal and off-diagonals in {-1, 0} (C20_poisson_matrix_closed_form, C20_poisson_symmetric_sign_pattern), row sums equal the sum of the stencil entries whose neighbour exists (C20_stencil_row_sum) and the FD Poisson matrix is weakly diagonally dominant (C20_poisson_fd_weakly_diagonally_dominant) and must equal what poisson() returns on every generated grid; the FE and FD 2-D diffusion stencils, written operation by operation as the '
              'library computes them from eps, cos(theta), sin(theta), are exact on all quadratic polynomials (0 on 1, x, y; '
              '-2 K11, -2 K22, -2 K12 on x^2, y^2, xy with K = Q diag(1, eps) Q^T), for every anisotropy and rotation, over any '
              'field with 2 and 3 invertible -- they discretise -div K grad u -- and these Gallina stencils evaluated at '
              'PrimFloat must equal diffusion_stencil_2d bit for bit.  Both the stencil_grid model and the specification are evaluated inside Coq on every '
              'generated case and must equal what the working-tree stencil_grid returns (all grid shapes <= 5 per '
              'dimension in 1-3 D, random odd integer stencils with zeros, every format and dtype); oracles decide Poisson '
              '(symmetric M-matrix, tensor-product spectrum), diffusion row sums, and the Q1 elasticity generator on all '
              'grid shapes incl. non-square (symmetric, definite, rigid-body modes).')
LEVEL_NOTE = ('The stencil theorem is unbounded and about exact arithmetic (any value type whose addition has the stored zero as right '
              'identity); float rounding of summed duplicate diagonals and the SciPy DIA container are tied by the correspondence '
              '(<= 5 per dimension, exhaustive over shapes).  Poisson spectrum, elasticity assembly: oracle only.  F7 '
              '(non-square elasticity) repaired by a fix: commit.')
RULE = ('all grid shapes with 1..5 points per dimension in 1-D and 2-D and 1..3 in 3-D x random odd stencils (3 and 5 wide, '
        'zeros included, integer entries) x formats csr/csc/coo/dia/bsr/None x dtypes: dense(stencil_grid) == Stencil model == '
        'Stencil spec (exact, inside Coq); Poisson FD/FE in 1-3 D; diffusion FE/FD over eps/theta; Q1 elasticity over grid '
        'shapes x spacings x (E, nu) x Dirichlet on/off.  Non-trivial: more than one grid point.')
RULE += (' '
         'FE Poisson: tensor-product spectrum 3^N - prod(1 + 2 cos) and zero interior row sums.')
THOROUGH_ROUNDS = 4
TRUSTED = ['SciPy dia_array semantics and format conversion', 'NumPy eigvalsh on the oracle side']
PARTIAL = ['stencil theorem: exact arithmetic, DIA container semantics modelled (A[i, i+off] = data[off][i+off])', 'Poisson spectrum / nonsingularity and elasticity: oracle only']
HEADER = ('From Coq Require Import ZArith List.\nImport ListNotations.\n'
          'Require Import PV.Base.Ops PV.Model.StencilRun.\nOpen Scope Z_scope.\n')


def run(ctx):
    from pyamg.gallery import stencil_grid, poisson, linear_elasticity
    from pyamg.gallery.diffusion import diffusion_stencil_2d
    rng = ctx.sub('st')
    cases, meta = [], []
    shapes = [(a,) for a in range(1, 6)] + [(a, b) for a in range(1, 6) for b in range(1, 6)] + \
             [(a, b, c) for a in range(1, 4) for b in range(1, 4) for c in range(1, 4)]
    for grid in shapes:
        d = len(grid)
        for rep in range(3 if not ctx.thorough else 6):
            # (stencils may be wider than the grid: half-widths up to 4 on grids of 1..5 points)
            sshape = tuple(rng.choice([1, 3, 3, 5, 7, 9] if d < 3 else [1, 3, 3, 5, 7]) for _ in range(d))
            S = np.array([rng.choice([0, 0, 1, -1, 2, -3, 4, 7]) for _ in range(int(np.prod(sshape)))]).reshape(sshape)
            if not S.any():
                S.flat[0] = 5
            fmt = rng.choice(['csr', 'csc', 'coo', 'dia', 'bsr', None])
            dt = rng.choice([float, np.float32, np.int64, complex])
            case = dict(grid=list(grid), stencil=S.tolist(), format=fmt, dtype=np.dtype(dt).name)
            ctx.mark(case)
            try:
                A = stencil_grid(S, grid, dtype=dt, format=fmt)
            except Exception as e:   # noqa
                ctx.fail('stencil_grid/raises', repr(e), case)
                continue
            N = int(np.prod(grid))
            ctx.case((grid, sshape, S.tobytes(), fmt, np.dtype(dt).name), N > 1, sample=case if len(ctx.samples) < 3 and N > 2 else None)
            ctx.count('dim=%d' % d)
            if fmt is not None and A.format != fmt:
                ctx.fail('stencil_grid/format', 'asked %s got %s' % (fmt, A.format), case)
            if A.dtype != np.dtype(dt):
                ctx.fail('stencil_grid/dtype', 'asked %s got %s' % (np.dtype(dt).name, A.dtype), case)
            D = np.real(A.toarray()).astype(np.int64)
            # the generator is linear in the stencil: the same stencil in other units (exact powers of two) and with an
            # imaginary unit gives the scaled matrix -- no entry is small enough to be dropped
            if rep == 0:
                for sc in (2.0 ** -40, 2.0 ** 40, 2.0 ** -40 * 1j):
                    try:
                        As = stencil_grid(S * sc, grid, dtype=complex if isinstance(sc, complex) else float, format='csr').toarray()
                    except Exception as e:   # noqa
                        ctx.fail('stencil_grid/scaled/raises', repr(e), dict(case, scale=str(sc)))
                        continue
                    if not np.array_equal(As, D * sc):
                        ctx.fail('stencil_grid/not-linear-in-the-stencil', 'stencil scaled by %s does not give the scaled matrix' % (sc,),
                                 dict(case, scale=str(sc)))
                ctx.count('stencil-scaled')
            cases.append('(%s, %s, %s, %s)' % (cq.zl(sshape), cq.zl(grid), cq.zl(S.ravel()), cq.lst([cq.zl(r) for r in D.tolist()])))
            meta.append((case, D.tolist()))
    ctx.exhaustive = True
    ctx.corr_relations = ['dense(stencil_grid(S, grid)) == Stencil.stencil_grid model == Stencil.spec (exact, both evaluated in Coq)']
    bad, errs = cq.run_cases('c20', HEADER, 'caseT', 'chk', cases, shard=60)
    for e in errs:
        ctx.disagree('C20 model evaluation', None, e, None)
    for i in bad[:20]:
        case, D = meta[i]
        mo = cq.eval_term('c20_bad', HEADER, 'match %s with (s,g,v,_) => specZ s g v end' % cases[i])
        ctx.disagree('stencil_grid', case, mo, D)
        # independent restatement for the failing-input search
        ctx.fail('stencil_grid/not-spec', 'matrix differs from the stencil specification', case)
    # ---------------- Poisson: requested dtype and format, both discretisations
    for grid in [(5,), (4, 3), (1, 4), (2, 3, 2)]:
        for dt in (np.float32, np.float64, np.complex64, np.complex128, np.int32, np.int64):
            for fmt in (None, 'csr', 'coo', 'bsr'):
                for typ in ('FD', 'FE'):
                    case = dict(poisson=list(grid), type=typ, dtype=np.dtype(dt).name, format=fmt)
                    try:
                        Ap = poisson(grid, dtype=dt, format=fmt, type=typ)
                    except Exception as e:   # noqa
                        ctx.fail('poisson/raises', repr(e), case)
                        continue
                    ctx.count('oracle:poisson/dtype-format')
                    if Ap.dtype != np.dtype(dt):
                        ctx.fail('poisson/dtype', 'requested %s, got %s' % (np.dtype(dt).name, Ap.dtype), case)
                    if fmt is not None and Ap.format != fmt:
                        ctx.fail('poisson/format', 'requested %s, got %s' % (fmt, Ap.format), case)
                    Aref = poisson(grid, format='csr', type=typ).toarray()
                    if not np.array_equal(np.asarray(Ap.toarray(), dtype=complex), Aref.astype(complex)):
                        ctx.fail('poisson/values-depend-on-dtype', 'entries differ from the float64 matrix', case)
    # the Gallina transcription of poisson() (Model/Poisson.v: stencil construction + stencil_grid model), evaluated in Coq, against
    # the matrices the working tree returns: every grid with up to 5 / 4 / 3 points per dimension in 1 / 2 / 3 D, one 4-D grid
    pgrids = [(a,) for a in range(1, 7)] + [(a, b_) for a in range(1, 5) for b_ in range(1, 5)] + \
             [(a, b_, c_) for a in range(1, 4) for b_ in range(1, 4) for c_ in range(1, 4)] + [(2, 1, 2, 2)]
    pcases, pmeta = [], []
    for grid in pgrids:
        for typ in ('FD', 'FE'):
            case = dict(poisson=list(grid), type=typ, tie='Model/Poisson.v')
            try:
                Ad = sp.csr_array(poisson(grid, format='csr', type=typ)).toarray()
            except Exception as e:   # noqa
                ctx.fail('poisson/raises', repr(e), case)
                continue
            if not np.all(Ad == np.round(Ad)):
                ctx.fail('poisson/non-integer-entries', '', case)
                continue
            ctx.case(('poisson-model', grid, typ), True)
            ctx.count('poisson-model')
            pcases.append('(%s, %s, %s)' % ('true' if typ == 'FE' else 'false', cq.zl(grid), cq.lst([cq.zl(r) for r in np.round(Ad).astype(int).tolist()])))
            pmeta.append((case, Ad.tolist()))
    PH = HEADER.replace('PV.Model.StencilRun.', 'PV.Model.StencilRun PV.Model.Poisson.')
    bad, errs = cq.run_cases('c20p', PH, '(bool * list Z * list (list Z))%type', 'chkP', pcases, shard=40)
    for e in errs:
        ctx.disagree('C20 Poisson model evaluation', None, e, None)
    for i in bad[:20]:
        case, D = pmeta[i]
        mo = cq.eval_term('c20p_bad', PH, 'match %s with (fe,g,_) => poissonZ fe g end' % pcases[i])
        ctx.disagree('poisson', case, mo, D)
        ctx.fail('poisson/not-the-documented-matrix', 'matrix differs from the closed form (2N or 3^N-1 on the diagonal, -1 for the neighbours that exist)', case)
    ctx.corr_relations.append('dense(poisson(grid, type=FD|FE)) == Poisson.poissonZ (stencil built as in laplacian.py, assembled by the stencil_grid model; exact, in Coq)')
    for grid in [(1,), (2,), (5,), (1, 4), (3, 3), (4, 2), (2, 3, 2), (3, 3, 3), (1, 1, 4)]:
        for typ in ('FD', 'FE'):
            case = dict(poisson=list(grid), type=typ)
            A = sp.csr_array(poisson(grid, format='csr', type=typ)).toarray()
            ctx.case(('poisson', grid, typ), True)
            ctx.count('poisson')
            if np.abs(A - A.T).max() != 0:
                ctx.fail('poisson/not-symmetric', '', case)
            off = A - np.diag(np.diag(A))
            if np.any(off > 0) or np.any(np.diag(A) <= 0) or np.any(A.sum(1) < -1e-12):
                ctx.fail('poisson/not-M-matrix', 'positive off-diagonal, non-positive diagonal or negative row sum', case)
            if typ == 'FD':
                ev = np.sort(np.linalg.eigvalsh(A))
                axes = [2 - 2 * np.cos(np.arange(1, n + 1) * np.pi / (n + 1)) for n in grid]
                want = np.sort(np.array([sum(t) for t in itertools.product(*axes)]))
                if _nn(np.abs(ev - want).max()) > 1e-10:
                    ctx.fail('poisson/spectrum', 'max deviation from the tensor-product spectrum %.3g' % np.abs(ev - want).max(), case)
            else:
                # FE: stencil -1 on all 3^N - 1 neighbours, centre 3^N - 1, i.e. A = 3^N I - (T_1 x ... x T_N) with
                # T_k = tridiag(1, 1, 1): spectrum 3^N - prod_k (1 + 2 cos(j pi / (n_k + 1))); interior rows sum to zero
                N_ = len(grid)
                ev = np.sort(np.linalg.eigvalsh(A))
                axes = [1 + 2 * np.cos(np.arange(1, n + 1) * np.pi / (n + 1)) for n in grid]
                want = np.sort(np.array([3.0 ** N_ - np.prod(t) for t in itertools.product(*axes)]))
                if _nn(np.abs(ev - want).max()) > 1e-9:
                    ctx.fail('poisson/FE/spectrum', 'max deviation from the tensor-product spectrum %.3g' % np.abs(ev - want).max(), case)
                idx = np.arange(int(np.prod(grid))).reshape(grid)
                inner = idx[tuple(slice(1, -1) for _ in grid)].ravel() if all(g >= 3 for g in grid) else []
                if len(inner) and _nn(np.abs(A[inner].sum(1)).max()) > 1e-12:
                    ctx.fail('poisson/FE/interior-row-sum', 'interior rows do not sum to zero', case)
    # ---------------- diffusion stencils: bit-exact against the Gallina stencils, and the consistency the theorems state
    dcases, dmeta = [], []
    pairs = [(eps, th) for eps in (1.0, 0.1, 1e-3, 7.5) for th in (0.0, 0.3, np.pi / 4, 1.9, -0.7)]
    pairs += [(rng.choice([0.01, 0.5, 2.0, 100.0]), rng.uniform(-3.2, 3.2)) for _ in range(40 if not ctx.thorough else 200)]
    for eps, th in pairs:
        for ti, typ in enumerate(('FE', 'FD')):
            dcase = dict(eps=eps, theta=th, type=typ)
            ctx.mark(dcase)
            raw = diffusion_stencil_2d(epsilon=eps, theta=th, type=typ)
            st = np.array(raw, dtype=float, copy=True)
            # the returned array belongs to the caller: post-processing it in place (shift, 1/h^2 scaling) must not change what
            # a later call with the same arguments returns
            try:
                raw[1, 1] += 1.0
                raw *= 100.0
            except Exception:   # noqa  (a read-only result would be fine too)
                pass
            again = np.asarray(diffusion_stencil_2d(epsilon=eps, theta=th, type=typ), dtype=float)
            ctx.count('oracle:diffusion/second-call')
            if again.shape != st.shape or not np.array_equal(again, st):
                ctx.fail('diffusion_stencil_2d/depends-on-call-history', 'the second call with the same arguments returns a different stencil after the '
                         'caller modified the first result in place (max difference %.3g)' % _nn(np.abs(again - st).max()), dcase)
            ctx.case(('diffusion', eps, th, typ), True)
            ctx.count('diffusion')
            Cc, Sc = np.cos(float(th)), np.sin(float(th))
            dcases.append('(%d%%nat, (%s, %s, %s, %s), %s)' % (ti, cq.fl(float(eps)), cq.fl(float(Cc * Sc)), cq.fl(float(Cc ** 2)),
                                                            cq.fl(float(Sc ** 2)), cq.lst([cq.fll(r) for r in st])))
            dmeta.append(dcase)
            if abs(st.sum()) > 1e-12 * np.abs(st).sum():
                ctx.fail('diffusion_stencil_2d/sum-not-zero', 'sum %.3g' % st.sum(), dcase)
            if _nn(np.abs(st - st[::-1, ::-1]).max()) > 0:
                ctx.fail('diffusion_stencil_2d/not-centrosymmetric', '', dcase)
            # exactness on quadratics: -div K grad u with K = Q diag(1, eps) Q^T (first array index = x)
            c_, s_ = np.cos(th), np.sin(th)
            K11, K22, K12 = c_ * c_ + eps * s_ * s_, s_ * s_ + eps * c_ * c_, (1 - eps) * c_ * s_
            xs = np.array([-1.0, 0.0, 1.0])
            X, Y = np.meshgrid(xs, xs, indexing='ij')
            for nm, u, want in (('x', X, 0.0), ('y', Y, 0.0), ('x^2', X * X, -2 * K11), ('y^2', Y * Y, -2 * K22), ('xy', X * Y, -2 * K12)):
                got = float((st * u).sum())
                if not abs(got - want) <= 1e-12 * (1 + abs(eps)):
                    ctx.fail('diffusion_stencil_2d/%s/not-consistent' % typ,
                             'stencil applied to %s gives %r, -div K grad u gives %r' % (nm, got, want), dcase)
                    break
    # ---------------- 3-D rotated anisotropic diffusion (FD): the documented operator is -div D grad u with D = Q A Q^T,
    # Q = Rpsi Rtheta Rphi, A = diag(1, epsy, epsz); a second-order stencil is exact on quadratics
    from pyamg.gallery.diffusion import diffusion_stencil_3d
    for t3 in range(12 if not ctx.thorough else 60):
        epsy, epsz = rng.choice([1.0, 0.1, 0.01, 5.0]), rng.choice([1.0, 0.25, 0.001, 3.0])
        th, ph, ps = (0.0, 0.0, 0.0) if t3 == 0 else (rng.uniform(-3, 3), rng.uniform(-3, 3), rng.uniform(-3, 3))
        if t3 == 1:
            ph = ps = 0.0
        case3 = dict(epsilony=epsy, epsilonz=epsz, theta=th, phi=ph, psi=ps, type='FD')
        ctx.mark(case3)
        try:
            st3 = np.asarray(diffusion_stencil_3d(epsilony=epsy, epsilonz=epsz, theta=th, phi=ph, psi=ps, type='FD'), dtype=float)
        except Exception as e:   # noqa
            ctx.fail('diffusion_stencil_3d/raises', repr(e), case3)
            continue
        ctx.case(('diffusion3d', epsy, epsz, th, ph, ps), True)
        ctx.count('diffusion3d')

        def rot(a, axis):
            c_, s_ = np.cos(a), np.sin(a)
            return np.array([[c_, s_, 0], [-s_, c_, 0], [0, 0, 1.0]]) if axis == 'z' else np.array([[1.0, 0, 0], [0, c_, s_], [0, -s_, c_]])
        Q3 = rot(ps, 'z') @ rot(th, 'x') @ rot(ph, 'z')
        D3 = Q3 @ np.diag([1.0, epsy, epsz]) @ Q3.T
        idx3 = np.array([-1.0, 0.0, 1.0])
        X, Y, Z = np.meshgrid(idx3, idx3, idx3, indexing='ij')
        scale3 = 1 + max(epsy, epsz)
        if st3.shape != (3, 3, 3) or abs(st3.sum()) > 1e-12 * scale3:
            ctx.fail('diffusion_stencil_3d/sum-not-zero', 'shape %r sum %.3g' % (st3.shape, st3.sum()), case3)
            continue
        for nm, mono, want in (('x', X, 0.0), ('y', Y, 0.0), ('z', Z, 0.0),
                               ('xx', X * X, -2 * D3[0, 0]), ('yy', Y * Y, -2 * D3[1, 1]), ('zz', Z * Z, -2 * D3[2, 2]),
                               ('xy', X * Y, -(D3[0, 1] + D3[1, 0])), ('xz', X * Z, -(D3[0, 2] + D3[2, 0])),
                               ('yz', Y * Z, -(D3[1, 2] + D3[2, 1]))):
            got = float((st3 * mono).sum())
            if not abs(got - want) <= 1e-12 * scale3:
                ctx.fail('diffusion_stencil_3d/not-consistent' + ('/mixed-derivative' if len(nm) == 2 and nm[0] != nm[1] else ''),
                         'stencil applied to %s gives %r, -div D grad u gives %r' % (nm, got, want), case3)
                break
    dh = ('From Coq Require Import ZArith List PrimFloat.\nImport ListNotations.\n'
          'Require Import PV.Base.Ops PV.Model.DiffusionRun.\n')
    bad, errs = cq.run_cases('c20d', dh, 'diff_case', 'diff_chk', dcases)
    for e in errs:
        ctx.disagree('C20 diffusion model evaluation', None, e, None)
    for i in bad[:10]:
        ctx.disagree('diffusion_stencil_2d == Gallina stencil (bit-exact)', dmeta[i], 'model differs', None)
    ctx.corr_relations.append('diffusion_stencil_2d(eps, theta, FE|FD) == Diffusion.fe_stencil / fd_stencil at PrimFloat (bit-exact)')
    # ---------------- Q1 elasticity on all small grid shapes
    for X in range(1, 5):
        for Y in range(1, 5):
            for spacing in (None, (0.5, 2.0)):
                E, nu = rng.choice([(1e5, 0.3), (1.0, 0.25), (3.0, 0.45)])
                case = dict(elasticity=[X, Y], spacing=spacing, E=E, nu=nu)
                ctx.mark(case)
                try:
                    from pyamg.gallery.elasticity import q12d
                    A, B = linear_elasticity((X, Y), spacing=spacing, E=E, nu=nu)
                    Af, Bf = q12d((X, Y), spacing=spacing, E=E, nu=nu, dirichlet_boundary=False)
                except Exception as e:   # noqa
                    ctx.fail('linear_elasticity/raises' + ('/non-square' if X != Y else ''), repr(e), case)
                    continue
                ctx.case(('elasticity', X, Y, spacing, E, nu), True)
                ctx.count('elasticity' + ('/non-square' if X != Y else '/square'))
                tag = '/non-square' if X != Y else ''
                Ad, Afd = A.toarray(), Af.toarray()
                sc = np.abs(Afd).max()
                if _nn(np.abs(Ad - Ad.T).max()) > 1e-12 * sc or np.linalg.eigvalsh((Ad + Ad.T) / 2).min() <= 0:
                    ctx.fail('linear_elasticity/not-SPD' + tag, 'constrained stiffness matrix not symmetric positive definite', case)
                if _nn(np.abs(Afd @ Bf).max()) > 1e-9 * sc * np.abs(Bf).max():
                    ctx.fail('linear_elasticity/rigid-body-modes' + tag, 'unconstrained operator: |A B| = %.3g' % np.abs(Afd @ Bf).max(), case)
                # independent assembly of the unconstrained Q1 plane-strain stiffness matrix for THESE material constants
                # (2x2 Gauss quadrature on every rectangle, Lame parameters from E and nu)
                DX, DY = spacing if spacing is not None else (1.0, 1.0)
                lam_ = E * nu / ((1 + nu) * (1 - 2 * nu))
                mu_ = E / (2 * (1 + nu))
                Cm = np.array([[lam_ + 2 * mu_, lam_, 0.0], [lam_, lam_ + 2 * mu_, 0.0], [0.0, 0.0, mu_]])
                Ke = np.zeros((8, 8))
                g_ = 1.0 / np.sqrt(3.0)
                for xi in (-g_, g_):
                    for eta in (-g_, g_):
                        dN = 0.25 * np.array([[-(1 - eta), (1 - eta), (1 + eta), -(1 + eta)],
                                              [-(1 - xi), -(1 + xi), (1 + xi), (1 - xi)]])
                        dNx, dNy = dN[0] * 2.0 / DX, dN[1] * 2.0 / DY
                        Bm = np.zeros((3, 8))
                        Bm[0, 0::2], Bm[1, 1::2], Bm[2, 0::2], Bm[2, 1::2] = dNx, dNy, dNy, dNx
                        Ke += Bm.T @ Cm @ Bm * (DX * DY / 4.0)
                Xf, Yf = X, Y                 # q12d(dirichlet_boundary=False): X x Y elements, (X+1) x (Y+1) nodes
                nn_ = (Xf + 1) * (Yf + 1)
                Kref = np.zeros((2 * nn_, 2 * nn_))
                for ey in range(Yf):
                    for ex in range(Xf):
                        ll = ey * (Xf + 1) + ex
                        nd = [ll, ll + 1, ll + Xf + 2, ll + Xf + 1]
                        dofs = [2 * q + c for q in nd for c in (0, 1)]
                        Kref[np.ix_(dofs, dofs)] += Ke
                if Kref.shape != Afd.shape or _nn(np.abs(Afd - Kref).max()) > 1e-9 * np.abs(Kref).max():
                    ctx.fail('linear_elasticity/not-the-Q1-stiffness-matrix' + tag,
                             'unconstrained operator differs from the Gauss-quadrature assembly for E=%g, nu=%g: max diff %.3g (scale %.3g)'
                             % (E, nu, np.abs(Afd - Kref).max() if Kref.shape == Afd.shape else float('nan'), np.abs(Kref).max()), case)
                # the public entry point forwards every parameter: its matrix is the interior block of that operator for an
                # (X+1) x (Y+1) element mesh
                Af2, _ = q12d((X, Y), spacing=spacing, E=E, nu=nu, dirichlet_boundary=True)
                if _nn(np.abs(Ad - Af2.toarray()).max()) > 0:
                    ctx.fail('linear_elasticity/parameters-not-forwarded' + tag, 'linear_elasticity(grid, spacing, E, nu) differs from q12d with the same arguments', case)
                # rows of the constrained operator not coupled to the boundary annihilate B
                n_int = (X - 1 if X > 1 else 0)
                res = np.abs(Ad @ B).max(axis=1)
                # a node of the (X x Y) interior grid is uncoupled iff it is not on the rim of that grid
                idx = [2 * (j * X + i) + c for j in range(Y) for i in range(X) for c in (0, 1) if 0 < i < X - 1 and 0 < j < Y - 1]
                if idx and res[idx].max() > 1e-9 * sc * np.abs(B).max():
                    ctx.fail('linear_elasticity/interior-rows' + tag, 'rows not coupled to the boundary do not annihilate B', case)


def search(ctx):
    run(ctx)


def replay(ctx, data):
    run(ctx)
