"""C18 -- graph algorithms return what their names promise."""
import itertools

import numpy as np
import scipy.sparse as sp
import scipy.sparse.csgraph as csg

from .. import coqrun as cq
from .. import gen

TECHNIQUE = 'Coq proofs (unbounded: serial and parallel MIS, MIS colouring, components, BFS, Bellman-Ford partial correctness; all graphs <= 4 nodes for the rest) + exhaustive small-graph correspondence'
LEVEL_TEXT = ('Kernel-checked theorems (Props/C18.v): for EVERY symmetric graph the serial maximal-independent-set '
              'model returns an independent and maximal set (invariant proof, any number of vertices), and the parallel '
              'maximal-independent-set model (any weight type) returns only maximal independent sets and, with integer weights '
              'and index tie-break, always returns within its fuel n+2 (every pass decides the largest undecided vertex); the '
              'MIS-based colouring returns within its fuel and is a proper colouring with colours 0..K-1 on every symmetric graph; '
              'connected_components returns within its fuel and labels two vertices equally exactly when they are connected; '
              'breadth_first_search on EVERY graph (symmetric or not) returns within its fuel, level = hop distance from the seed, -1 exactly '
              'for unreachable vertices, order lists the reached vertices once; bellman_ford on EVERY weighted directed graph (integer weights '
              'of either sign, any centres), whenever it returns: every finite distance is the weight of a walk from the recorded centre and no '
              'walk from any centre is lighter (shortest-walk distance to the nearest centre; unreachable vertices stay infinite); for all '
              'symmetric graphs on <= 4 vertices (bound stated in the theorems, decided by vm_compute over the '
              'complete enumeration) the models of parallel MIS, distance-2 MIS, the three colourings, connected '
              'components, breadth-first search and Bellman-Ford are valid (independent/maximal, proper and gap-free, '
              'true components, hop counts, shortest paths with consistent centres and predecessors) and never run '
              'out of fuel.  The models are pinned to the working-tree kernels by exact agreement on every symmetric '
              'graph on <= 5 vertices (6 in the thorough tier) with and without self loops, all seeds/centres, tied '
              'integer weights; csgraph-based oracles decide the property on the public functions.')
LEVEL_NOTE = ('Unbounded theorems exist for serial and parallel MIS, the MIS colouring, connected components, breadth-first search and (partial correctness) Bellman-Ford; the others, and the fuel of Bellman-Ford, are bounded (<= 4 vertices) + correspondence. '
              'Balanced Bellman-Ford / Lloyd clustering: oracle only.  symmetric_rcm on disconnected graphs read an '
              'uninitialised array (F5), repaired by a fix: commit.')
RULE = ('complete enumeration of symmetric graphs on 1..5 vertices (1..6 thorough), each without and with stored '
        'diagonal; per graph: serial MIS, parallel MIS with tied integer weights, MIS-2, colourings MIS/JP/LDF, BFS from '
        'every seed, components, Bellman-Ford with integer weights and 1-2 centres -> model == kernel exactly; BFS also on '
        'every directed graph on <= 3 vertices and every (8th in quick) directed graph on 4; public '
        'functions with NumPy-random weights -> validity oracles (scipy.sparse.csgraph).  Non-trivial: the graph has '
        'an edge; distinct = distinct (algorithm, graph, arguments).')
RULE += (' '
         'RCM also on the same pattern with nonsymmetric values.')
TRUSTED = ['scipy.sparse.csgraph (oracle side only)', 'NumPy global RNG for the public randomised functions']
PARTIAL = ['MIS-k, JP / LDF colourings, termination of Bellman-Ford within n+2 passes: theorems bounded to <= 4 vertices',
           'balanced Bellman-Ford, Lloyd clustering, center_nodes, floyd_warshall: oracle only']
REFUTED = []
HEADER = ('From Coq Require Import ZArith List.\nImport ListNotations.\n'
          'Require Import PV.Base.Ops PV.Model.GraphRun.\nOpen Scope Z_scope.\n')
I32 = np.int32


def adjacency(n, Ap, Aj):
    return [set(int(j) for j in Aj[Ap[i]:Ap[i + 1]]) - {i} for i in range(n)]


# ------------------------------------------------------------------- oracles
def check_mis(ctx, name, n, adj, x, k, case):
    """x: 1 on the set; independent and maximal at distance k"""
    # distance-k adjacency
    reach = []
    for i in range(n):
        seen, frontier = {i}, {i}
        for _ in range(k):
            frontier = set().union(*[adj[v] for v in frontier]) - seen if frontier else set()
            seen |= frontier
        reach.append(seen - {i})
    S = {i for i in range(n) if x[i] == 1}
    if any(v not in (0, 1) for v in x):
        ctx.fail(name + '/not-binary', 'values %s' % sorted(set(x)), case)
        return
    for i in S:
        if reach[i] & S:
            ctx.fail(name + '/not-independent', 'vertices %d and %d' % (i, min(reach[i] & S)), case)
            return
    for i in range(n):
        if i not in S and not (reach[i] & S):
            ctx.fail(name + '/not-maximal', 'vertex %d could be added' % i, case)
            return


def check_coloring(ctx, name, n, adj, col, case):
    col = [int(c) for c in col]
    for i in range(n):
        for j in adj[i]:
            if col[i] == col[j]:
                ctx.fail(name + '/not-proper', 'adjacent %d,%d share colour %d' % (i, j, col[i]), case)
                return
    if n and sorted(set(col)) != list(range(max(col) + 1)):
        ctx.fail(name + '/gaps', 'colours used %s' % sorted(set(col)), case)


def check_bf(ctx, name, n, A, centers, d, m, p, case):
    # every STORED entry is an edge (a stored zero is an edge of length zero); reference distances by plain relaxation
    G = sp.csr_array(A)
    W = np.full((n, n), np.inf)
    for i_ in range(n):
        for k_ in range(G.indptr[i_], G.indptr[i_ + 1]):
            W[i_, G.indices[k_]] = min(W[i_, G.indices[k_]], float(G.data[k_]))
    dist = np.full((len(centers), n), np.inf)
    for ci_, c_ in enumerate(centers):
        dist[ci_, c_] = 0.0
        for _ in range(n):
            for i_ in range(n):
                if np.isfinite(dist[ci_, i_]):
                    for k_ in range(G.indptr[i_], G.indptr[i_ + 1]):
                        j_ = G.indices[k_]
                        if dist[ci_, i_] + G.data[k_] < dist[ci_, j_]:
                            dist[ci_, j_] = dist[ci_, i_] + G.data[k_]
    best = dist.min(axis=0)
    for i in range(n):
        if not (d[i] == best[i] or (np.isinf(d[i]) and np.isinf(best[i]))):
            ctx.fail(name + '/distance', 'd[%d]=%r but shortest path %r' % (i, d[i], best[i]), case)
            return
        if np.isinf(best[i]):
            if m[i] != -1 or p[i] != -1:
                ctx.fail(name + '/unreachable-assigned', 'vertex %d' % i, case)
                return
            continue
        if not (0 <= m[i] < len(centers)) or dist[m[i], i] != best[i]:
            ctx.fail(name + '/nearest-centre', 'vertex %d assigned centre %r' % (i, m[i]), case)
            return
        if i in centers and d[i] == 0:
            continue
        if p[i] < 0 or not np.isfinite(W[p[i], i]) or d[p[i]] + A[p[i], i] != d[i]:
            ctx.fail(name + '/predecessor', 'vertex %d predecessor %r' % (i, p[i]), case)
            return


# ------------------------------------------------------------------ cases
def graphs(ctx):
    top = 6 if ctx.thorough else 5
    for n in range(1, top + 1):
        for edges in gen.all_sym_graphs(n):
            yield n, edges, False
            if n <= 4 or (len(edges) % 3 == 0 and n <= 5):
                yield n, edges, True


def run(ctx):
    from pyamg import amg_core
    import pyamg.graph as pg
    rng = ctx.sub('w')
    cases, meta = [], []
    count = 0
    for n, edges, diag in graphs(ctx):
        A = gen.graph_csr(n, edges, diag=diag)
        Ap, Aj = A.indptr.astype(I32), A.indices.astype(I32)
        adj = adjacency(n, Ap, Aj)
        nontriv = len(edges) > 0
        count += 1
        sample_it = (count % 400 == 7)
        base = dict(n=n, edges=edges, diag=diag)

        def add(alg, zs, ls, out, case):
            cases.append('(%d%%nat, %s, %s, %s, %s, %s, %s)' % (
                alg, cq.z(n), cq.zl(Ap), cq.zl(Aj), cq.zl(zs), cq.lst([cq.zl(a) for a in ls]), cq.zl(out)))
            meta.append((case, [int(v) for v in out]))
            ctx.case((alg, n, tuple(edges), diag, tuple(zs), tuple(tuple(int(v) for v in a) for a in ls)), nontriv,
                     sample=dict(case, out=[int(v) for v in out]) if sample_it else None)
            ctx.count('alg%d' % alg)
        ctx.mark(base)
        # 0 serial MIS
        x = np.full(n, -1, dtype=I32)
        N = amg_core.maximal_independent_set_serial(n, Ap, Aj, -1, 1, 0, x)
        add(0, [-1, 1, 0], [[-1] * n], [N] + x.tolist(), dict(base, alg='mis_serial'))
        check_mis(ctx, 'mis_serial', n, adj, x.tolist(), 1, dict(base, alg='mis_serial'))
        # 1 parallel MIS with tied integer weights
        y = np.array([rng.randrange(0, 3) for _ in range(n)], dtype=float)
        x = np.full(n, -1, dtype=I32)
        N = amg_core.maximal_independent_set_parallel(n, Ap, Aj, -1, 1, 0, x, y, -1)
        add(1, [-1, 1, 0, -1], [[-1] * n, y.astype(int).tolist()], [N] + x.tolist(), dict(base, alg='mis_parallel', y=y.tolist()))
        check_mis(ctx, 'mis_parallel', n, adj, x.tolist(), 1, dict(base, alg='mis_parallel', y=y.tolist()))
        mi = rng.choice([0, 1, 2])
        x = np.full(n, -1, dtype=I32)
        N = amg_core.maximal_independent_set_parallel(n, Ap, Aj, -1, 1, 0, x, y, mi)
        add(1, [-1, 1, 0, mi], [[-1] * n, y.astype(int).tolist()], [N] + x.tolist(), dict(base, alg='mis_parallel', y=y.tolist(), max_iters=mi))
        # 2-4 colourings
        col = np.empty(n, dtype=I32)
        K = amg_core.vertex_coloring_mis(n, Ap, Aj, col)
        add(2, [], [], [K] + col.tolist(), dict(base, alg='coloring_mis'))
        check_coloring(ctx, 'vertex_coloring/MIS', n, adj, col, dict(base, alg='coloring_mis'))
        for alg, fn, nm in ((3, amg_core.vertex_coloring_jones_plassmann, 'JP'), (4, amg_core.vertex_coloring_LDF, 'LDF')):
            z = np.array([rng.randrange(0, 3) for _ in range(n)], dtype=float)
            z0 = z.astype(int).tolist()
            col = np.empty(n, dtype=I32)
            K = fn(n, Ap, Aj, col, z)
            add(alg, [], [z0], [K] + col.tolist(), dict(base, alg='coloring_' + nm, z=z0))
            check_coloring(ctx, 'vertex_coloring/' + nm, n, adj, col, dict(base, alg='coloring_' + nm, z=z0))
        # 5 BFS from every seed (order prefix + level)
        for seed in range(n):
            order = np.full(n, -7, dtype=I32)
            level = np.full(n, -1, dtype=I32)
            amg_core.breadth_first_search(Ap, Aj, seed, order, level)
            reached = int(np.sum(level >= 0))
            add(5, [seed], [[-7] * n], [reached] + order[:reached].tolist() + level.tolist(), dict(base, alg='bfs', seed=seed))
            hop = csg.shortest_path(sp.csr_array(A), unweighted=True, indices=seed)
            want = [int(h) if np.isfinite(h) else -1 for h in hop]
            if want != level.tolist():
                ctx.fail('breadth_first_search/levels', 'levels %s but hop counts %s' % (level.tolist(), want), dict(base, seed=seed))
            if sorted(order[:reached].tolist()) != [i for i in range(n) if want[i] >= 0]:
                ctx.fail('breadth_first_search/order', 'order %s' % order.tolist(), dict(base, seed=seed))
        # 6 components
        comp = np.empty(n, dtype=I32)
        c = amg_core.connected_components(n, Ap, Aj, comp)
        add(6, [], [], [c] + comp.tolist(), dict(base, alg='cc'))
        nc, lab = csg.connected_components(sp.csr_array(A), directed=False)
        same = all((comp[i] == comp[j]) == (lab[i] == lab[j]) for i in range(n) for j in range(n))
        if c != nc or not same or sorted(set(comp.tolist())) != list(range(nc)):
            ctx.fail('connected_components', 'labels %s (scipy %s)' % (comp.tolist(), lab.tolist()), dict(base))
        # 7 Bellman-Ford with integer weights (zero-length edges included: they are edges)
        w = [rng.choice([1, 2, 3, 0]) for _ in edges]
        Aw = gen.graph_csr(n, edges, diag=False, weights=w)
        Wp, Wj, Wx = Aw.indptr.astype(I32), Aw.indices.astype(I32), Aw.data.copy()
        for centers in ([rng.randrange(n)], sorted(rng.sample(range(n), min(2, n)))):
            cen = np.array(centers, dtype=I32)
            d = np.full(n, np.inf)
            m = np.full(n, -1, dtype=I32)
            p = np.full(n, -1, dtype=I32)
            d[cen] = 0
            m[cen] = np.arange(len(cen))
            amg_core.bellman_ford(n, Wp, Wj, Wx, cen, d, m, p)
            out = [int(v) if np.isfinite(v) else -1 for v in d] + m.tolist() + p.tolist()
            cs = dict(base, alg='bellman_ford', weights=w, centers=centers)
            cases.append('(7%%nat, %s, %s, %s, [], %s, %s)' % (
                cq.z(n), cq.zl(Wp), cq.zl(Wj), cq.lst([cq.zl(Wx.astype(int)), cq.zl(centers)]), cq.zl(out)))
            meta.append((cs, out))
            ctx.case((7, n, tuple(edges), tuple(w), tuple(centers)), nontriv)
            ctx.count('alg7')
            check_bf(ctx, 'bellman_ford', n, Aw, centers, d, m, p, cs)
        # 8 MIS-k
        for k in (1, 2):
            y = np.array([rng.randrange(0, 4) for _ in range(n)], dtype=float)
            x = np.empty(n, dtype=I32)
            amg_core.maximal_independent_set_k_parallel(n, Ap, Aj, k, x, y, -1)
            add(8, [k, -1], [y.astype(int).tolist()], x.tolist(), dict(base, alg='mis_k', k=k, y=y.tolist()))
            check_mis(ctx, 'mis_k%d' % k, n, adj, x.tolist(), k, dict(base, alg='mis_k', k=k, y=y.tolist()))
    # BFS on DIRECTED graphs (the unbounded theorem covers nonsymmetric patterns): every digraph on <= 3 vertices,
    # every 8th (quick) / every (thorough) digraph on 4 vertices, all seeds; hop counts along edge direction
    for n in (2, 3, 4):
        pairs = [(i, j) for i in range(n) for j in range(n) if i != j]
        step = 1 if (n < 4 or ctx.thorough) else 8
        for mask in range(0, 1 << len(pairs), step):
            arcs = [pairs[b] for b in range(len(pairs)) if mask >> b & 1]
            D = np.zeros((n, n))
            for (i, j) in arcs:
                D[i, j] = 1
            A = sp.csr_array(D)
            Ap, Aj = A.indptr.astype(I32), A.indices.astype(I32)
            base = dict(n=n, arcs=arcs, directed=True)
            ctx.mark(base)
            for seed in range(n):
                order = np.full(n, -7, dtype=I32)
                level = np.full(n, -1, dtype=I32)
                amg_core.breadth_first_search(Ap, Aj, seed, order, level)
                reached = int(np.sum(level >= 0))
                out = [reached] + order[:reached].tolist() + level.tolist()
                cases.append('(5%%nat, %s, %s, %s, %s, %s, %s)' % (
                    cq.z(n), cq.zl(Ap), cq.zl(Aj), cq.zl([seed]), cq.lst([cq.zl([-7] * n)]), cq.zl(out)))
                meta.append((dict(base, alg='bfs', seed=seed), [int(v) for v in out]))
                ctx.case((5, 'directed', n, mask, seed), len(arcs) > 0)
                ctx.count('alg5-directed')
                hop = csg.shortest_path(A, unweighted=True, directed=True, indices=seed)
                want = [int(h) if np.isfinite(h) else -1 for h in hop]
                if want != level.tolist():
                    ctx.fail('breadth_first_search/levels-directed', 'levels %s but hop counts %s' % (level.tolist(), want), dict(base, seed=seed))
                if sorted(order[:reached].tolist()) != [i for i in range(n) if want[i] >= 0]:
                    ctx.fail('breadth_first_search/order-directed', 'order %s' % order.tolist(), dict(base, seed=seed))
    ctx.exhaustive = True
    ctx.corr_relations = ['amg_core.{maximal_independent_set_serial,_parallel,_k_parallel,vertex_coloring_mis,'
                          '_jones_plassmann,_LDF,breadth_first_search,connected_components,bellman_ford} == GraphAlg.* (exact)']
    bad, errs = cq.run_cases('c18', HEADER, 'caseT', 'chk', cases, shard=1500)
    for e in errs:
        ctx.disagree('C18 model evaluation', None, e, None)
    for i in bad[:20]:
        case, out = meta[i]
        mo = cq.eval_term('c18_bad', HEADER, 'match %s with (a,n,p,j,zs,ls,_) => run_graph a n p j zs ls end' % cases[i])
        ctx.disagree('graph kernel %s' % case.get('alg'), case, mo, out)
    public(ctx)
    many_colours(ctx)


def public(ctx):
    """public functions with NumPy randomness, larger graphs, weighted / disconnected / self loops"""
    import pyamg.graph as pg
    rng = ctx.sub('public')
    for it in range(40 if not ctx.thorough else 300):
        n = rng.choice([3, 5, 8, 12, 20])
        kind = rng.choice(['random', 'random', 'star', 'cycle', 'complete', 'disconnected', 'path'])
        if kind == 'star':
            edges = [(0, i) for i in range(1, n)]
        elif kind == 'cycle':
            edges = [(i, (i + 1) % n) for i in range(n)] if n > 2 else [(0, 1)]
            edges = [tuple(sorted(e)) for e in edges]
        elif kind == 'complete':
            edges = [(i, j) for i in range(n) for j in range(i + 1, n)]
        elif kind == 'path':
            edges = [(i, i + 1) for i in range(n - 1)]
        else:
            pr = 0.15 if kind == 'disconnected' else 0.35
            edges = [(i, j) for i in range(n) for j in range(i + 1, n) if rng.random() < pr]
        edges = sorted(set(edges))
        diag = rng.random() < 0.3
        w = [rng.choice([0.5, 1.0, 2.0, 3.5]) for _ in edges]
        A = gen.graph_csr(n, edges, diag=diag, weights=w)
        Ap, Aj = A.indptr, A.indices
        adj = adjacency(n, Ap, Aj)
        base = dict(n=n, edges=edges, diag=diag, kind=kind)
        np.random.seed(ctx.seed * 1000 + it)
        ctx.mark(base)
        ctx.case(('public', n, tuple(edges), diag), bool(edges))
        ctx.count('public:' + kind)
        if it % 2:
            # the same graph with the column indices of every row stored in a shuffled order (valid CSR, e.g. any product B @ B.T)
            A = gen.unsorted_copy(A, rng)
            A.indptr, A.indices = A.indptr.astype(np.int32), A.indices.astype(np.int32)
            base = dict(base, storage='unsorted column indices')
        A_before = (A.toarray().copy(), A.nnz)          # the caller's matrix: no graph routine may change it (self loops included)
        for algo, k in (('serial', None), ('parallel', None), ('parallel', 1), ('parallel', 2), ('parallel', 3)):
            x = pg.maximal_independent_set(A, algo=algo, k=k)
            check_mis(ctx, 'maximal_independent_set/%s/k=%s' % (algo, k), n, adj, x.tolist(), k or 1, dict(base, algo=algo, k=k))
        for method in ('MIS', 'JP', 'LDF'):
            col = pg.vertex_coloring(A, method=method)
            check_coloring(ctx, 'vertex_coloring/' + method, n, adj, col, dict(base, method=method))
        comp = pg.connected_components(A)
        nc, lab = csg.connected_components(sp.csr_array(A), directed=False)
        if not all((comp[i] == comp[j]) == (lab[i] == lab[j]) for i in range(n) for j in range(n)) or \
                sorted(set(comp.tolist())) != list(range(nc)):
            ctx.fail('connected_components', 'labels %s' % comp.tolist(), base)
        # components are those of the PATTERN: values with a_ij = -a_ji (a central difference, an oriented incidence weight) are edges too
        Ask = sp.csr_array(A).copy()
        rsk = np.repeat(np.arange(n), np.diff(Ask.indptr))
        Ask.data = np.where(rsk < Ask.indices, Ask.data, np.where(rsk > Ask.indices, -Ask.data, Ask.data))
        comps = pg.connected_components(Ask)
        if not all((comps[i] == comps[j]) == (lab[i] == lab[j]) for i in range(n) for j in range(n)) or \
                sorted(set(comps.tolist())) != list(range(nc)):
            ctx.fail('connected_components/skew-values', 'labels %s for a graph with %d components (values a_ij = -a_ji)' % (comps.tolist(), nc), base)
        Aw = gen.graph_csr(n, edges, diag=False, weights=w)
        centers = rng.sample(range(n), rng.choice([1, 2, 3]))          # in any order: centre k is centers[k]
        d, m, p = pg.bellman_ford(Aw, centers)
        check_bf(ctx, 'bellman_ford', n, Aw, centers, d, m, p, dict(base, centers=centers, weights=w))
        # the same graph with all lengths in other units (tiny and huge exact powers of two): distances scale, nearest
        # centres and predecessors stay what a shortest-path computation gives
        for sc in (2.0 ** -50, 2.0 ** 40):
            Aws = sp.csr_array(Aw * sc)
            ds, ms, ps_ = pg.bellman_ford(Aws, centers)
            check_bf(ctx, 'bellman_ford/scaled', n, Aws, centers, ds, ms, ps_, dict(base, centers=centers, weights=w, scale=sc))
        if A.nnz != A_before[1] or not np.array_equal(A.toarray(), A_before[0]):
            ctx.fail('graph-routines/input-modified', 'a graph routine changed the matrix it was given (nnz %d -> %d)' % (A_before[1], A.nnz), base)
            A = sp.csr_array(A_before[0])
        # reverse Cuthill-McKee: a symmetric permutation of the input
        Acsr = sp.csr_array(A).copy()
        Arcm_in = Acsr.copy()
        try:
            P = pg.symmetric_rcm(Arcm_in)
        except Exception as e:   # noqa
            ctx.fail('symmetric_rcm/raises' + ('' if nc == 1 else '/disconnected'), repr(e), base)
            continue
        if Arcm_in.nnz != Acsr.nnz or not np.array_equal(Arcm_in.toarray(), Acsr.toarray()):
            ctx.fail('symmetric_rcm/input-modified', 'the matrix handed to symmetric_rcm changed (nnz %d -> %d)' % (Acsr.nnz, Arcm_in.nnz), base)
        if not is_sym_perm(Acsr.toarray(), P.toarray()):
            ctx.fail('symmetric_rcm' + ('' if nc == 1 else '/disconnected'),
                     'result is not a symmetric permutation of the input (nnz %d vs %d)' % (P.nnz, Acsr.nnz), base)
        # the same pattern with values that are NOT symmetric (a_ij != a_ji): the reordering permutes rows and columns
        # alike, it never transposes
        Ans = Acsr.copy()
        rows_ = np.repeat(np.arange(n), np.diff(Ans.indptr))
        Ans.data = np.where(rows_ < Ans.indices, Ans.data, np.where(rows_ > Ans.indices, -2.0 * Ans.data - 1.0, Ans.data)) \
            + 0.125 * (rows_ % 3)
        try:
            Pn = pg.symmetric_rcm(Ans)
            if not is_sym_perm(Ans.toarray(), Pn.toarray()):
                ctx.fail('symmetric_rcm/nonsymmetric-values' + ('' if nc == 1 else '/disconnected'),
                         'result is not P A P^T for any permutation (values a_ij != a_ji)', dict(base, values='nonsymmetric'))
            ctx.count('public:rcm-nonsymmetric-values')
        except Exception as e:   # noqa
            ctx.fail('symmetric_rcm/nonsymmetric-values/raises', repr(e), base)


def many_colours(ctx):
    """graphs that need more than 64 colours (complete graphs, a complete graph plus pendant vertices)"""
    import pyamg.graph as pg
    for nK in (66, 70):
        edges = [(i, j) for i in range(nK) for j in range(i + 1, nK)] + [(0, nK), (1, nK + 1)]
        n = nK + 2
        A = gen.graph_csr(n, edges)
        adj = adjacency(n, A.indptr, A.indices)
        for method in ('MIS', 'JP', 'LDF'):
            np.random.seed(ctx.seed + nK)
            col = pg.vertex_coloring(A, method=method)
            ctx.case(('many-colours', nK, method), True)
            ctx.count('public:many-colours')
            check_coloring(ctx, 'vertex_coloring/' + method, n, adj, col, dict(graph='K_%d plus two pendant vertices' % nK, method=method))


def is_sym_perm(A, B):
    """is B = A[p][:,p] for some permutation p?  (backtracking on rows; matrices are small)"""
    n = A.shape[0]
    if B.shape != A.shape:
        return False
    keyA = [tuple(sorted(A[i].tolist())) + (A[i, i],) for i in range(n)]
    keyB = [tuple(sorted(B[i].tolist())) + (B[i, i],) for i in range(n)]
    if sorted(keyA) != sorted(keyB):
        return False
    perm = [-1] * n          # B[i, j] = A[perm[i], perm[j]]
    used = [False] * n
    budget = [200000]

    def rec(i):
        if i == n:
            return True
        for c in range(n):
            if used[c] or keyA[c] != keyB[i]:
                continue
            budget[0] -= 1
            if budget[0] < 0:
                return True      # give up searching: do not raise an alarm we cannot substantiate
            if all(B[i, j] == A[c, perm[j]] and B[j, i] == A[perm[j], c] for j in range(i)) and B[i, i] == A[c, c]:
                perm[i], used[c] = c, True
                if rec(i + 1):
                    return True
                perm[i], used[c] = -1, False
        return False
    return rec(0)


def search(ctx):
    run(ctx)


def replay(ctx, data):
    case = data.get('case') or {}
    n, edges, diag = case.get('n'), [tuple(e) for e in case.get('edges', [])], case.get('diag', False)
    if n is None:
        return
    from pyamg import amg_core
    import pyamg.graph as pg
    A = gen.graph_csr(n, edges, diag=diag)
    adj = adjacency(n, A.indptr, A.indices)
    np.random.seed(ctx.seed)
    for algo, k in (('serial', None), ('parallel', None), ('parallel', 2)):
        x = pg.maximal_independent_set(A, algo=algo, k=k)
        check_mis(ctx, 'maximal_independent_set/%s/k=%s' % (algo, k), n, adj, x.tolist(), k or 1, case)
    for method in ('MIS', 'JP', 'LDF'):
        check_coloring(ctx, 'vertex_coloring/' + method, n, adj, pg.vertex_coloring(A, method=method), case)
    ctx.case(repr(case), True)
