"""C01 -- multigrid solve: termination, tolerance and truthful reporting."""
import numpy as np
import scipy.sparse as sp

from .. import coqrun as cq
from .. import hier

RULE = ('hierarchies from all five constructors (+1-level, BSR, complex) x cycle V/W/F x cycles_per_level x '
        'b (n,) / (n,1) x x0 omitted / given / aliasing b / zero rhs; pass 1 records the residual history, '
        'pass 2 re-solves with tol pinned exactly at, just above and just below observed residuals and with '
        'maxiter at j-1, j, j+1; the Gallina loop (PrimFloat comparison) fed the pass-1 norms must predict '
        'status, history and callback count; the oracle recomputes every claim of the property from the '
        'callback copies and byte-compares b, x0, A.  Non-trivial: at least one cycle was run and the solve '
        'was decided by the tolerance test or the cap; distinct = distinct (hierarchy, options, tol, maxiter).')
TRUSTED = ['NumPy: np.array copies, zeros_like allocates, linalg.norm; SciPy sparse @']
PARTIAL = ['"inputs left unchanged" is decided by byte comparison in the correspondence/oracle, not by a theorem '
           '(it is a statement about NumPy aliasing)']
NOT_COVERED = ['AMLI cycle, accel != None (C08)']
TECHNIQUE = 'Coq proof of the solve loop specification + control-model correspondence on observed norms'
LEVEL_TEXT = ('Kernel-checked theorems (Props/C01.v) about the Gallina state machine of MultilevelSolver.solve, for every '
              'cycle map, residual function, comparison, tolerance and cap: the loop terminates within maxiter cycles '
              '(fuel never runs out), stops at the first iterate passing the test, returns the last iterate, reports 0 '
              'iff that iterate passes and maxiter otherwise, fills one history entry per iterate and hands exactly the '
              'iterates to the callback.  The model, run inside Coq with the IEEE comparison on the norms observed '
              'on the implementation, must predict status/history/callback count of re-solves with tol pinned at and '
              'around observed residuals and maxiter at j-1,j,j+1; an oracle recomputes every claim from callback copies.')
LEVEL_NOTE = ('The cycle is abstract here (C03 models it).  Input preservation is decided by byte comparison only '
              '(NumPy aliasing is not modelled).  Trusted: Coq kernel/vm_compute, harness, NumPy norm and copy semantics.')
HEADER = ('From Coq Require Import ZArith List PrimFloat.\nImport ListNotations.\n'
          'Require Import PV.Base.Ops PV.Model.SolveRun.\n')


def snapshot(*arrs):
    return [None if a is None else np.array(a, copy=True) for a in arrs]


def same(a, b):
    if a is None:
        return b is None
    return a.dtype == b.dtype and a.shape == b.shape and a.tobytes() == b.tobytes()


def one_solve(ml, A0, b, x0, tol, maxiter, cycle, cpl, prefill=False):
    res = [123.0] if prefill else []
    cbs = []
    lvlA = ml.levels[0].A
    before = snapshot(b, x0, lvlA.data, lvlA.indices, lvlA.indptr)
    x, st = ml.solve(b, x0=x0, tol=tol, maxiter=maxiter, cycle=cycle, cycles_per_level=cpl,
                     residuals=res, callback=lambda xk: cbs.append(np.array(xk, copy=True)),
                     return_info=True)
    after = snapshot(b, x0, lvlA.data, lvlA.indices, lvlA.indptr)
    unchanged = all(same(u, v) for u, v in zip(before, after))
    return x, st, res, cbs, unchanged


def oracle(ctx, ml, b, x0, tol, maxiter, x, st, res, cbs, unchanged, case):
    A = ml.levels[0].A
    normb = np.linalg.norm(b)
    if normb == 0.0:
        normb = 1.0
    xs0 = np.zeros_like(b) if x0 is None else np.array(x0)
    bb, xs0 = np.ravel(b), np.ravel(xs0)

    def rn(v):
        return np.linalg.norm(bb - A @ np.ravel(v))
    sig = 'solve/'
    if not unchanged:
        ctx.fail(sig + 'inputs-modified', 'b, x0 or the level-0 matrix changed during solve', case)
    if len(cbs) > maxiter or len(cbs) < 1:
        ctx.fail(sig + 'cycle-count', '%d cycles with maxiter=%d' % (len(cbs), maxiter), case)
    if len(res) != len(cbs) + 1:
        ctx.fail(sig + 'history-length', 'len(residuals)=%d but %d iterates' % (len(res), len(cbs) + 1), case)
    else:
        rec = [rn(xs0)] + [rn(c) for c in cbs]
        for i, (a, r) in enumerate(zip(res, rec)):
            if not (abs(a - r) <= 1e-12 * max(abs(r), 1e-300) + 1e-300 or a == r):
                ctx.fail(sig + 'history-value', 'residuals[%d]=%r but recomputed %r' % (i, a, r), case)
                break
    if cbs and not np.array_equal(np.ravel(x), np.ravel(cbs[-1])):
        ctx.fail(sig + 'returns-last', 'returned x is not the last iterate passed to the callback', case)
    true_r = rn(x)
    # when the recomputation reproduces the recorded norm bit-for-bit the comparison is decided
    # exactly (this is what separates `<` from `<=` at a tie); otherwise to rounding
    exact = bool(res) and true_r == res[-1]
    slack = 0.0 if exact else 1e-12
    if st == 0:
        if not (true_r < tol * normb if exact else true_r < tol * normb * (1 + slack)):
            ctx.fail(sig + 'status0-not-converged', 'status 0 but ||b-Ax||=%r >= tol*normb=%r' % (true_r, tol * normb), case)
    else:
        if st != len(cbs) or st != maxiter:
            ctx.fail(sig + 'status-count', 'status %r but %d cycles, maxiter %d' % (st, len(cbs), maxiter), case)
        if true_r < tol * normb * (1 - slack):
            ctx.fail(sig + 'status-nonzero-but-converged', 'status %r but residual %r < %r' % (st, true_r, tol * normb), case)
    # first success stops: no earlier iterate may already satisfy the criterion
    for c in cbs[:-1]:
        if rn(c) < tol * normb * (1 - 1e-12):
            ctx.fail(sig + 'did-not-stop', 'an earlier iterate already met the tolerance', case)
            break
    if np.shape(x) != np.shape(np.ravel(b)) and np.shape(x) != np.shape(b):
        ctx.fail(sig + 'shape', 'result shape %r' % (np.shape(x),), case)


def configs(ctx, thorough):
    rng = ctx.sub('cfg')
    mats = hier.hpd_matrices(rng)
    bl = hier.builders()
    sel = []
    for bi, (bname, f, _) in enumerate(bl):
        for mi, (mname, A) in enumerate(mats):
            if thorough or ctx.search or (mi + bi) % 3 == 0:
                sel.append((bname, f, mname, A))
    aname, af, _ = hier.air_builder()
    sel.append((aname, af, 'upwind-5x5', hier.nonsym_matrix(5)))
    return sel


def divergent(ctx):
    """a hierarchy whose smoother amplifies the error: the iterates overflow, the residual norms become inf / nan, and
    the solve must still run its maxiter cycles and report that count (a non-finite norm is not below any tolerance)"""
    import warnings
    import pyamg
    from pyamg.gallery import poisson
    for (shape, omega, mi, cyc) in (((24,), 3.5, 420, 'V'), ((7, 6), 3.0, 500, 'V'), ((24,), 3.5, 260, 'W')):
        A = poisson(shape, format='csr')
        sm = ('jacobi', {'omega': omega, 'withrho': False})
        np.random.seed(3)
        ml = pyamg.smoothed_aggregation_solver(A, presmoother=sm, postsmoother=sm, max_coarse=4)
        b = np.random.rand(A.shape[0])
        case = dict(divergent=True, grid=list(shape), omega=omega, maxiter=mi, cycle=cyc)
        ctx.mark(case)
        res, cbs = [], []
        with warnings.catch_warnings(), np.errstate(all='ignore'):
            warnings.simplefilter('ignore')
            try:
                x, st = ml.solve(b, tol=1e-8, maxiter=mi, cycle=cyc, residuals=res, return_info=True,
                                 callback=lambda xk: cbs.append(np.array(xk, copy=True)))
            except Exception as e:   # noqa
                ctx.fail('solve/divergent/raises', repr(e), case)
                continue
        ctx.case(('divergent', shape, omega, mi, cyc), True)
        ctx.count('tag=divergent')
        if np.isfinite(res[-1]):
            ctx.notes.append('divergent probe %r stayed finite' % (case,))
            continue
        if st != mi or len(cbs) != mi or len(res) != mi + 1:
            ctx.fail('solve/divergent/status-count', 'status %r, %d cycles, %d history entries with maxiter=%d (non-finite residual from cycle %d on)'
                     % (st, len(cbs), len(res), mi, next(i for i, v in enumerate(res) if not np.isfinite(v))), case)
        elif not np.array_equal(np.ravel(x), np.ravel(cbs[-1]), equal_nan=True):
            ctx.fail('solve/divergent/returns-last', 'returned x is not the last iterate', case)
        # also without the optional outputs
        with warnings.catch_warnings(), np.errstate(all='ignore'):
            warnings.simplefilter('ignore')
            x2, st2 = ml.solve(b, tol=1e-8, maxiter=mi, cycle=cyc, return_info=True)
        if st2 != mi:
            ctx.fail('solve/divergent/status-count/no-outputs', 'status %r with maxiter=%d' % (st2, mi), case)


def run(ctx):
    M = 5 if not ctx.thorough else 8
    cases, meta = [], []
    divergent(ctx)
    for bname, f, mname, A in configs(ctx, ctx.thorough):
        try:
            np.random.seed(ctx.seed)      # setup draws from NumPy's global RNG
            ml = f(A)
        except Exception as e:   # noqa
            ctx.notes.append('constructor %s on %s raised %r (skipped here; C04 owns construction)' % (bname, mname, e))
            continue
        n = A.shape[0]
        nlev = len(ml.levels)
        ctx.count('levels=%d' % nlev)
        ctx.count('builder=' + bname)
        rng = ctx.sub('%s/%s' % (bname, mname))
        cplx = np.iscomplexobj(ml.levels[0].A.data)
        for cycle, cpl in (('V', 1), ('W', 1), ('F', 1), ('F', 2)):
            if nlev == 1 and cycle != 'V':
                continue
            for variant in ('plain', 'col', 'x0', 'alias', 'zero-rhs', 'zero-rhs-no-x0', 'prefill', 'tiny-rhs', 'huge-rhs',
                            'x0-converged', 'x0-converged-prefill', 'mixed-dtype', 'b-vec-x0-col', 'b-col-x0-vec'):
                if not ctx.thorough and not ctx.search and rng.random() < 0.45 and variant not in ('plain', 'zero-rhs', 'zero-rhs-no-x0', 'tiny-rhs', 'x0-converged'):
                    continue
                b = np.array([rng.uniform(-1, 1) for _ in range(n)])
                if cplx:
                    b = b + 1j * np.array([rng.uniform(-1, 1) for _ in range(n)])
                x0 = None
                if variant == 'col':
                    b = b.reshape(-1, 1)
                elif variant == 'x0':
                    x0 = np.array([rng.uniform(-1, 1) for _ in range(n)])
                elif variant == 'alias':
                    x0 = b
                elif variant == 'zero-rhs':
                    b = np.zeros(n)
                    x0 = np.array([rng.uniform(-1, 1) for _ in range(n)])
                elif variant == 'zero-rhs-no-x0':
                    b = np.zeros(n)          # x = 0 is the solution: history must start at 0, status 0 at once
                elif variant == 'tiny-rhs':
                    b = b * 2.0 ** -40       # ||b|| ~ 1e-12 is NOT zero: the tolerance stays relative to it
                elif variant == 'huge-rhs':
                    b = b * 2.0 ** 40
                elif variant in ('x0-converged', 'x0-converged-prefill'):
                    # a guess that already meets every tolerance used below: one cycle is still run and recorded
                    x0 = np.linalg.solve(hier.dense_of(ml.levels[0].A), b)
                elif variant == 'mixed-dtype':
                    # the guess keeps all its digits whatever the type of b: complex hierarchy / real b / complex guess,
                    # real hierarchy / integer b / float guess
                    if cplx:
                        b = np.real(b).copy()
                        x0 = np.array([rng.uniform(-1, 1) + 1j * rng.uniform(-1, 1) for _ in range(n)])
                    else:
                        b = np.round(4 * b).astype(np.int64)
                        x0 = np.array([rng.uniform(-1, 1) for _ in range(n)])
                elif variant == 'b-vec-x0-col':
                    x0 = np.array([rng.uniform(-1, 1) for _ in range(n)]).reshape(-1, 1)
                elif variant == 'b-col-x0-vec':
                    b = b.reshape(-1, 1)
                    x0 = np.array([rng.uniform(-1, 1) for _ in range(n)])
                base = dict(builder=bname, matrix=mname, cycle=cycle, cpl=cpl, variant=variant,
                            b=b.tolist() if not cplx else [[v.real, v.imag] for v in np.ravel(b)],
                            x0=None if x0 is None else np.ravel(x0).real.tolist())
                ctx.mark(base)
                try:
                    _, _, full, _, _ = one_solve(ml, A, b, x0, 1e-300, M, cycle, cpl)
                except Exception as e:   # noqa
                    ctx.fail('solve/raises', 'solve raised %r' % (e,), base)
                    continue
                normb_raw = float(np.linalg.norm(b))
                normb = normb_raw if normb_raw != 0.0 else 1.0
                # pass 2: tolerances pinned at / around observed residuals, caps around j
                plans = []
                Mj = len(full) - 1          # pass 1 may stop early (residual exactly 0)
                if Mj < 1:
                    ctx.fail('solve/history-length', 'pass 1 produced no iterate', base)
                    continue
                for j in sorted({1, min(2, Mj), rng.randrange(1, Mj + 1)}):
                    rj = full[j]
                    t = rj / normb
                    tie = None
                    for cand in (t, np.nextafter(t, 1.0), np.nextafter(t, 0.0)):
                        if cand * normb == rj:
                            tie = cand
                            break
                    for tol, tag in ((tie, 'tie'), (None if tie is None else float(np.nextafter(tie, 1.0)), 'above'),
                                     (t * 0.5, 'below'), (t * 1.5, 'wide')):
                        if tol is None or not (0 < tol < 1):
                            continue
                        for mi in {max(1, j - 1), j, min(Mj, j + 1)}:
                            plans.append((float(tol), mi, tag))
                if not ctx.thorough and not ctx.search:
                    rng.shuffle(plans)
                    keep = [p for p in plans if p[2] == 'tie'][:2] + [p for p in plans if p[2] != 'tie'][:4]
                    plans = keep
                if variant.startswith('x0-converged'):
                    plans = list(plans) + [(1e-6, 3, 'wide'), (1e-3, 1, 'below')]
                for tol, mi, tag in plans:
                    case = dict(base, tol=tol, maxiter=mi, tag=tag)
                    ctx.mark(case)
                    try:
                        x, st, res, cbs, unchanged = one_solve(ml, A, b, x0, tol, mi, cycle, cpl,
                                                               prefill=(variant in ('prefill', 'x0-converged-prefill')))
                    except Exception as e:   # noqa
                        ctx.fail('solve/raises', 'solve raised %r' % (e,), case)
                        continue
                    ctx.case((bname, mname, cycle, cpl, variant, tol, mi), True,
                             sample=dict(case, status=int(st), residuals=res) if tag == 'tie' else None)
                    ctx.count('tag=' + tag)
                    ctx.count('status=%s' % ('0' if st == 0 else 'cap'))
                    oracle(ctx, ml, b, x0, tol, mi, x, st, res, cbs, unchanged, case)
                    # the optional outputs are independent of each other: history only / callback only / neither /
                    # return_info=False give the same iterate, status, callback sequence and history
                    if tag in ('below', 'wide') and variant in ('plain', 'x0', 'zero-rhs'):
                        for which in ('residuals-only', 'callback-only', 'neither', 'no-info'):
                            r2, c2 = [], []
                            kw = dict(x0=None if x0 is None else x0.copy(), tol=tol, maxiter=mi, cycle=cycle, cycles_per_level=cpl)
                            if which == 'residuals-only':
                                kw['residuals'] = r2
                            if which == 'callback-only':
                                kw['callback'] = lambda xk: c2.append(np.array(xk, copy=True))
                            try:
                                out = ml.solve(b, return_info=(which != 'no-info'), **kw)
                            except Exception as e:   # noqa
                                ctx.fail('solve/%s/raises' % which, repr(e), dict(case, outputs=which))
                                continue
                            x2, st2 = (out if which != 'no-info' else (out, st))
                            ctx.count('outputs:' + which)
                            if st2 != st or not np.array_equal(np.ravel(x2), np.ravel(x)):
                                ctx.fail('solve/%s/result-differs' % which, 'status %r vs %r, |dx| = %.3g' % (st2, st, np.linalg.norm(np.ravel(x2) - np.ravel(x))),
                                         dict(case, outputs=which))
                            if which == 'residuals-only' and [float(v) for v in r2] != [float(v) for v in res]:
                                ctx.fail('solve/residuals-only/history-differs', '%s vs %s' % (r2[:4], res[:4]), dict(case, outputs=which))
                            if which == 'callback-only' and (len(c2) != len(cbs) or any(not np.array_equal(u, v) for u, v in zip(c2, cbs))):
                                ctx.fail('solve/callback-only/callbacks-differ', '%d vs %d callbacks' % (len(c2), len(cbs)), dict(case, outputs=which))
                    cases.append('(%s, %s, %s, %d%%nat, (%d%%nat, %s, %d%%nat))' % (
                        cq.fll(full), cq.fl(normb_raw), cq.fl(tol), mi, int(st), cq.fll(res), len(cbs)))
                    meta.append((case, dict(status=int(st), residuals=res, callbacks=len(cbs), pass1=full)))
    ctx.corr_relations = ['MultilevelSolver.solve (status, residual history, #callbacks) == Solve.solve with '
                          'PrimFloat.ltb on the observed norms (exact)']
    bad, errs = cq.run_cases('c01', HEADER, 'caseT', 'chk', cases)
    for e in errs:
        ctx.disagree('C01 model evaluation', None, e, None)
    for i in bad[:20]:
        case, out = meta[i]
        ctx.disagree('solve control loop', case, 'model predicts otherwise (see SolveRun.chk)', out)


def search(ctx):
    run(ctx)


def replay(ctx, data):
    case = data.get('case') or {}
    rng = ctx.sub('cfg')
    for bname, f, mname, A in configs(ctx, True):
        if bname == case.get('builder') and mname == case.get('matrix'):
            ml = f(A)
            b = np.array(case['b'])
            if b.ndim == 2 and b.shape[1] == 2 and np.iscomplexobj(ml.levels[0].A.data):
                b = b[:, 0] + 1j * b[:, 1]
            if case.get('variant') == 'col':
                b = b.reshape(-1, 1)
            x0 = None if case.get('x0') is None else np.array(case['x0'])
            if case.get('variant') == 'alias':
                x0 = b
            x, st, res, cbs, unchanged = one_solve(ml, A, b, x0, case.get('tol', 1e-8), case.get('maxiter', 5),
                                                   case['cycle'], case['cpl'])
            oracle(ctx, ml, b, x0, case.get('tol', 1e-8), case.get('maxiter', 5), x, st, res, cbs, unchanged, case)
            ctx.case(repr(case), True)
            return
    ctx.notes.append('replay: hierarchy not found')
