"""C08 -- accelerated and black-box solves reach the requested tolerance honestly."""
import warnings

import numpy as np
import scipy.sparse as sp

from .. import hier

def _nn(v):
    """NaN counts as 'exceeds every bound' in the oracle comparisons"""
    return np.inf if np.isnan(v) else v


TECHNIQUE = 'Coq proof of the accel-branch control logic (preconditioner = one cycle = M, history seeding) + spy-accelerator correspondence + per-input convergence oracle'
LEVEL_TEXT = ('Kernel-checked theorems (Props/C08.v): the operator handed to the accelerator is one cycle of the requested '
              'type from the zero guess, i.e. the textbook M of C03 for every hierarchy; for SciPy-style accelerators the '
              'residual history is seeded with the initial residual and receives exactly one entry per callback call; the '
              'black-box chooses CG for Hermitian and GMRES for other problems.  Spy accelerators (both calling '
              'conventions) record what solve() hands over: M@v must equal one cycle from zero for the requested cycle '
              'type, tol/maxiter/x0 are forwarded, rtol = tol and atol = 0 in the fallback, history length = 1 + '
              '#callbacks with recomputed values; named native and SciPy accelerators on all constructors: status 0 implies '
              'the accelerator\'s criterion, else non-zero; the black-box solve returns the shape of b and meets the '
              'requested (preconditioned) relative residual on SPD and nonsymmetric M-matrix inputs.')
LEVEL_NOTE = ('"Reaches the tolerance" is a convergence claim about floating-point iterations on arbitrary input: decided per '
              'input by the oracle, not a theorem.  accel=minres (SciPy) is a known finding (TypeError: atol).')
RULE = ('constructors (classical, SA, root-node, pairwise, AIR) x spy accelerators (PyAMG style / SciPy style) x cycle V/W/F x '
        'x0 given/omitted x callback/residuals on/off; named accelerators cg, gmres, bicgstab, fgmres, cr, cgnr (native) and '
        'cgs, qmr, tfqmr, lgmres, gcrotmk, minres (SciPy); black-box on SPD and nonsymmetric M-matrices in CSR/BSR/dense with '
        'and without an existing solver, b (n,) and (n,1).  Non-trivial: the accelerator iterated at least once.')
THOROUGH_ROUNDS = 5
TRUSTED = ['scipy.sparse.linalg iterative solvers (contract: rtol/atol semantics)', 'C03, C06']
PARTIAL = ['black-box / accelerated convergence to tol: oracle only']
REFUTED = []


def run(ctx):
    import pyamg
    from pyamg import krylov
    rng = ctx.sub('cfg')
    mats = hier.hpd_matrices(rng)
    bl = [b for b in hier.builders() if b[0] != 'onelevel']
    combos = [(b, m) for b in bl for m in mats if not m[0].startswith('complex')]
    rng.shuffle(combos)
    combos = combos[:10 if not ctx.thorough else 30]
    an, af, _ = hier.air_builder()
    combos.append(((an, af, 'nonsym'), ('upwind-5x5', hier.nonsym_matrix(5))))
    # badly scaled copies (||M b|| << ||b||, initial residual of a random guess >> ||b||): tolerances must stay relative
    for (bb, mm) in list(combos[:2]) + [combos[-1]]:
        Asc = mm[1] * 1000.0
        combos.append((bb, (mm[0] + '*1e3', Asc)))
    for (bname, f, kind), (mname, A) in combos:
        np.random.seed(ctx.seed)
        try:
            ml = f(A)
        except Exception:   # noqa
            continue
        A0 = ml.levels[0].A
        n = A0.shape[0]
        b = np.array([rng.uniform(-1, 1) for _ in range(n)])
        base = dict(builder=bname, matrix=mname)
        # ------------------------------------------------ spy accelerators
        for cyc in ('V', 'W', 'F'):
            for style in ('pyamg', 'scipy'):
                for x0kind in ('none', 'given'):
                    x0 = None if x0kind == 'none' else np.array([rng.uniform(-1, 1) for _ in range(n)])
                    seen = {}
                    ncalls = rng.choice([0, 1, 3])
                    spy_code = rng.choice([7, 7, -1, 0])       # an iteration count, a breakdown code, success
                    user_cb = []

                    def spy(A_, b_, x0=None, tol=None, maxiter=None, M=None, callback=None, **kw):
                        if style == 'scipy' and 'residuals' in kw:
                            raise TypeError("spy() got an unexpected keyword argument 'residuals'")
                        seen.update(A=A_, b=np.array(b_, copy=True), x0=None if x0 is None else np.array(x0, copy=True),
                                    tol=tol, maxiter=maxiter, M=M, kw=dict(kw))
                        x = np.zeros_like(b_) if x0 is None else np.array(x0, dtype=float)
                        for k in range(ncalls):
                            x = x + 0.1 * (M @ (b_ - A_ @ x))
                            if callback is not None:
                                callback(x)
                            if style == 'pyamg' and kw.get('residuals') is not None:
                                kw['residuals'].append(float(np.linalg.norm(b_ - A_ @ x)))
                        seen['iterates_end'] = x
                        return x, spy_code
                    res = []
                    case = dict(base, cycle=cyc, style=style, x0=x0kind, callbacks=ncalls)
                    ctx.mark(case)
                    try:
                        with warnings.catch_warnings():
                            warnings.simplefilter('ignore')
                            x, info = ml.solve(b, x0=x0, tol=1e-7, maxiter=11, cycle=cyc, accel=spy, residuals=res,
                                               callback=lambda v: user_cb.append(np.array(v, copy=True)), return_info=True)
                    except Exception as e:   # noqa
                        ctx.fail('accel-spy/raises', repr(e), case)
                        continue
                    ctx.case((bname, mname, cyc, style, x0kind, ncalls), ncalls > 0, sample=case if len(ctx.samples) < 3 else None)
                    ctx.count('spy:' + style)
                    if info != spy_code or not np.array_equal(x, seen['iterates_end']):
                        ctx.fail('accel/result-not-forwarded', 'solve returned (%r) instead of the accelerator\'s (x, %d)' % (info, spy_code), case)
                    if seen.get('maxiter') != 11:
                        ctx.fail('accel/maxiter-not-forwarded', repr(seen.get('maxiter')), case)
                    if style == 'pyamg' and seen.get('tol') != 1e-7:
                        ctx.fail('accel/tol-not-forwarded', repr(seen.get('tol')), case)
                    if style == 'scipy' and (seen['kw'].get('rtol') != 1e-7 or seen['kw'].get('atol') != 0):
                        ctx.fail('accel/scipy-tolerances', 'rtol=%r atol=%r' % (seen['kw'].get('rtol'), seen['kw'].get('atol')), case)
                    if (x0 is None) != (seen.get('x0') is None) and seen.get('x0') is not None and np.any(seen['x0'] != 0):
                        ctx.fail('accel/x0-not-forwarded', 'x0 mismatch', case)
                    # the preconditioner is one cycle of the requested type from the zero guess
                    v = np.array([rng.uniform(-1, 1) for _ in range(n)])
                    want = ml.solve(v, x0=np.zeros(n), maxiter=1, cycle=cyc, tol=1e-300)
                    got = seen['M'] @ v
                    if _nn(np.linalg.norm(got - want)) > 1e-12 * (1 + np.linalg.norm(want)):
                        ctx.fail('accel/preconditioner-not-requested-cycle', '%s-cycle requested, |M v - cycle(v)| = %.3g'
                                 % (cyc, np.linalg.norm(got - want)), case)
                    # history: seeded + one entry per callback (SciPy style) / as filled by the accelerator
                    if len(res) != 1 + ncalls and style == 'scipy':
                        ctx.fail('accel/history-not-populated', 'len(residuals)=%d for %d callbacks' % (len(res), ncalls), case)
                    if style == 'scipy' and res:
                        xs0 = np.zeros(n) if x0 is None else x0
                        rec = [np.linalg.norm(b - A0 @ xs0)] + [np.linalg.norm(b - A0 @ u) for u in user_cb]
                        if len(rec) == len(res) and not np.allclose(rec, res, rtol=1e-12, atol=0):
                            ctx.fail('accel/history-values', 'recorded %s recomputed %s' % (res, rec), case)
                    if len(user_cb) != ncalls:
                        ctx.fail('accel/user-callback', '%d user callbacks for %d accelerator callbacks' % (len(user_cb), ncalls), case)
        # ------------------------------------------------ named accelerators
        sym = kind == 'sym'
        names = (['cg', 'cr'] if sym else []) + ['gmres', 'bicgstab', 'fgmres', 'cgnr', 'cgs', 'qmr', 'tfqmr', 'lgmres', 'gcrotmk'] + (['minres'] if sym else [])
        for name in names:
            for tol, mxit in ((1e-4, 60), (1e-9, 60), (1e-4, 2), (1e-6, 4)):
                res = []
                case = dict(base, accel=name, tol=tol, maxiter=mxit)
                ctx.mark(case)
                try:
                    with warnings.catch_warnings():
                        warnings.simplefilter('ignore')
                        x, info = ml.solve(b, tol=tol, maxiter=mxit, accel=name, residuals=res, return_info=True)
                except Exception as e:   # noqa
                    ctx.fail('accel=%s/raises' % name, repr(e), case)
                    continue
                ctx.case((bname, mname, name, tol, mxit), True)
                ctx.count('accel:' + name)
                if not res:
                    ctx.fail('accel=%s/history-empty' % name, 'residual history not populated', case)
                r = np.linalg.norm(b - A0 @ x)
                Mop = ml.aspreconditioner()
                rM = np.linalg.norm(Mop @ (b - A0 @ x))
                ok = r <= tol * np.linalg.norm(b) * 1.001 or rM <= tol * np.linalg.norm(Mop @ b) * 1.001
                # (SciPy accelerators stop on their own internal estimates: only the native ones are checked)
                if info == 0 and not ok and name in ('cg', 'cr', 'gmres', 'bicgstab', 'fgmres'):
                    ctx.fail('accel=%s/status0-not-converged' % name, 'info 0 but |r|/|b| = %.3g, |Mr|/|Mb| = %.3g (tol %g)'
                             % (r / np.linalg.norm(b), rM / np.linalg.norm(Mop @ b), tol), case)
    blackbox(ctx)
    probes(ctx)


def probes(ctx):
    """directed probes: SciPy accelerators handed over as functions, right-hand sides in other units, and a problem
    on which the recurrence estimate of the residual drifts away from the true residual"""
    import pyamg
    import scipy.sparse.linalg as sla
    from pyamg.gallery import poisson
    A = sp.csr_array(poisson((16, 16), format='csr'))
    n = A.shape[0]
    np.random.seed(ctx.seed)
    ml = pyamg.smoothed_aggregation_solver(A, max_coarse=10)
    Mop = ml.aspreconditioner()
    rng = ctx.sub('probes')
    b0 = np.array([rng.uniform(-1, 1) for _ in range(n)])
    # 1. SciPy accelerators given as FUNCTIONS: the history is populated as for the named ones
    for fn in (sla.gmres, sla.cg, sla.bicgstab, sla.cgs, sla.lgmres):
        for tol in (1e-4, 1e-8):
            res, ucb = [], []
            case = dict(probe='scipy-function', accel=fn.__name__, tol=tol)
            ctx.mark(case)
            try:
                with warnings.catch_warnings():
                    warnings.simplefilter('ignore')
                    x, info = ml.solve(b0, tol=tol, maxiter=40, accel=fn, residuals=res, return_info=True,
                                       callback=lambda *a: ucb.append(1))
            except Exception as e:   # noqa
                ctx.fail('accel=scipy.%s/raises' % fn.__name__, repr(e), case)
                continue
            ctx.case(('scipy-function', fn.__name__, tol), True)
            ctx.count('accel:scipy.' + fn.__name__)
            moved = np.linalg.norm(x) > 0
            if moved and len(res) < 2:
                ctx.fail('accel=scipy.%s/history-not-populated' % fn.__name__, 'the accelerator iterated (x != x0) but len(residuals) = %d' % len(res), case)
            if moved and len(ucb) == 0:
                ctx.fail('accel=scipy.%s/user-callback-not-called' % fn.__name__, 'the accelerator iterated but the user callback was never called', case)
            if info == 0 and np.linalg.norm(b0 - A @ x) > 1e-2 * np.linalg.norm(b0):
                ctx.fail('accel=scipy.%s/status0-not-converged' % fn.__name__, 'info 0 but |r|/|b| = %.3g' % (np.linalg.norm(b0 - A @ x) / np.linalg.norm(b0)), case)
    # 2. the same right-hand side in other units: status 0 still means converged (relative criterion for every b != 0)
    for name in ('cg', 'cr', 'gmres', 'bicgstab', 'fgmres', 'cgnr', 'cgne', 'steepest_descent', 'minimal_residual'):
        for ex in (-19, -10, 12):
            b = b0 * 10.0 ** ex
            for x0 in (None, 'random'):
                case = dict(probe='rhs-units', accel=name, rhs_scale='1e%d' % ex, x0=x0, tol=1e-6)
                ctx.mark(case)
                xg = None if x0 is None else np.array([rng.uniform(-1, 1) for _ in range(n)]) * 10.0 ** ex
                try:
                    with warnings.catch_warnings():
                        warnings.simplefilter('ignore')
                        x, info = ml.solve(b, x0=xg, tol=1e-6, maxiter=80, accel=name, return_info=True)
                except Exception as e:   # noqa
                    ctx.fail('accel=%s/rhs-units/raises' % name, repr(e), case)
                    continue
                ctx.case(('rhs-units', name, ex, x0), True)
                ctx.count('accel-units:' + name)
                r = b - A @ x
                rel, relM = np.linalg.norm(r) / np.linalg.norm(b), np.linalg.norm(Mop @ r) / np.linalg.norm(Mop @ b)
                if info == 0 and not (rel <= 1e-6 * 1.001 or relM <= 1e-6 * 1.001):
                    ctx.fail('accel=%s/rhs-units/status0-not-converged' % name, 'b of size 1e%d: info 0 but |r|/|b| = %.3g, |Mr|/|Mb| = %.3g (tol 1e-6)'
                             % (ex, rel, relM), case)
    for ex in (-19, -10, 12):
        b = b0 * 10.0 ** ex
        case = dict(probe='rhs-units', blackbox=True, rhs_scale='1e%d' % ex, tol=1e-8)
        ctx.mark(case)
        try:
            import io
            import contextlib
            with warnings.catch_warnings(), contextlib.redirect_stdout(io.StringIO()):
                warnings.simplefilter('ignore')
                np.random.seed(ctx.seed + 5)
                x = pyamg.solve(A, b, tol=1e-8, verb=False)
        except Exception as e:   # noqa
            ctx.fail('blackbox/rhs-units/raises', repr(e), case)
            continue
        ctx.case(('rhs-units', 'blackbox', ex), True)
        rel = np.linalg.norm(b - A @ x) / np.linalg.norm(b)
        if not rel <= 1e-8 * 1.01:
            ctx.fail('blackbox/rhs-units/tolerance-not-met', 'b of size 1e%d: relative residual %.3g > 1e-8' % (ex, rel), case)
    # 2b. a user callback changes nothing: same iterate, same status with and without it (native accelerators)
    for name in ('cg', 'cr', 'gmres', 'gmres_mgs', 'gmres_householder', 'bicgstab', 'fgmres', 'cgnr', 'cgne', 'steepest_descent', 'minimal_residual'):
        for tol_ in (1e-8,):
            case = dict(probe='callback-neutral', accel=name, tol=tol_)
            ctx.mark(case)
            try:
                with warnings.catch_warnings():
                    warnings.simplefilter('ignore')
                    xa, ia = ml.solve(b0, tol=tol_, maxiter=40, accel=name, return_info=True)
                    seen_ = []
                    xb, ib = ml.solve(b0, tol=tol_, maxiter=40, accel=name, return_info=True, callback=lambda v: seen_.append(1))
            except Exception as e:   # noqa
                ctx.fail('accel=%s/callback/raises' % name, repr(e), case)
                continue
            ctx.case(('callback-neutral', name), True)
            ctx.count('accel-callback:' + name)
            if ia != ib or np.linalg.norm(xa - xb) > 1e-9 * (1 + np.linalg.norm(xa)):
                ctx.fail('accel=%s/callback-changes-result' % name, 'with a callback: status %r, without: %r; iterates differ by %.3g (true |r|/|b| %.3g vs %.3g)'
                         % (ib, ia, np.linalg.norm(xa - xb), np.linalg.norm(b0 - A @ xb) / np.linalg.norm(b0), np.linalg.norm(b0 - A @ xa) / np.linalg.norm(b0)), case)
    # 2c. conjugate gradients on hierarchies WITHOUT symmetric smoothing (a warning is all the caller gets): status 0 still means
    #     CG's own rule |b - A x| < tol |b|, and the history holds those norms
    hs = {'rs/2-pre-1-post-gs': lambda: pyamg.ruge_stuben_solver(A, presmoother=('gauss_seidel', {'sweep': 'symmetric', 'iterations': 2}),
                                                                 postsmoother=('gauss_seidel', {'sweep': 'symmetric', 'iterations': 1}), max_coarse=10),
          'rs/jacobi-pre-gs-post': lambda: pyamg.ruge_stuben_solver(A, presmoother='jacobi', postsmoother='gauss_seidel', max_coarse=10),
          'sa/forward-forward-gs': lambda: pyamg.smoothed_aggregation_solver(A, presmoother=('gauss_seidel', {'sweep': 'forward'}),
                                                                             postsmoother=('gauss_seidel', {'sweep': 'forward'}), max_coarse=10),
          'air/default': lambda: pyamg.air_solver(A, max_coarse=10)}
    for hname, hf in hs.items():
        np.random.seed(ctx.seed)
        try:
            mh = hf()
        except Exception:   # noqa
            continue
        for cyc in ('V', 'W'):
            case = dict(probe='cg-on-nonsymmetric-smoothing', hierarchy=hname, cycle=cyc, tol=1e-8)
            ctx.mark(case)
            res = []
            try:
                with warnings.catch_warnings():
                    warnings.simplefilter('ignore')
                    x, info = mh.solve(b0, accel='cg', cycle=cyc, tol=1e-8, maxiter=60, residuals=res, return_info=True)
            except Exception as e:   # noqa
                ctx.fail('accel=cg/nonsymmetric-smoothing/raises', repr(e), case)
                continue
            ctx.case(('cg-nonsym-smoothing', hname, cyc), True)
            ctx.count('accel-cg-nonsymmetric-smoothing')
            rel = np.linalg.norm(b0 - A @ x) / np.linalg.norm(b0)
            if info == 0 and not rel < 1e-8 * 1.01:
                ctx.fail('accel=cg/nonsymmetric-smoothing/status0-not-converged', '%s: status 0 but |b - A x|/|b| = %.3g >= tol' % (hname, rel), case)
            if res and np.all(np.isfinite(x)) and abs(res[-1] - np.linalg.norm(b0 - A @ x)) > 1e-3 * max(np.linalg.norm(b0 - A @ x), 1e-12 * np.linalg.norm(b0)):
                ctx.fail('accel=cg/nonsymmetric-smoothing/history', '%s: last history entry %.3g, |b - A x| = %.3g' % (hname, res[-1], np.linalg.norm(b0 - A @ x)), case)
    # 2d. the black box on two DIFFERENT matrices one after the other (same shape, same number of entries, same sum of entries),
    #     and with its default verbosity
    An1 = hier.nonsym_matrix(12)
    An2 = sp.csr_array(An1.T)
    bn = np.array([rng.uniform(-1, 1) for _ in range(An1.shape[0])])
    import io
    import contextlib
    for tag, seq in (('A-then-A^T', (An1, An2)), ('A^T-then-A', (An2, An1))):
        for verb in (False, True):
            case = dict(probe='blackbox-sequence', sequence=tag, verb=verb)
            ctx.mark(case)
            try:
                with warnings.catch_warnings(), contextlib.redirect_stdout(io.StringIO()):
                    warnings.simplefilter('ignore')
                    np.random.seed(ctx.seed + 9)
                    xs_ = [pyamg.solve(M_, bn, tol=1e-8, **({} if verb else {'verb': False})) for M_ in seq]
            except Exception as e:   # noqa
                ctx.fail('blackbox/sequence/raises', repr(e), case)
                continue
            ctx.case(('blackbox-sequence', tag, verb), True)
            ctx.count('blackbox:sequence')
            for k_, (M_, x_) in enumerate(zip(seq, xs_)):
                rel = np.linalg.norm(bn - M_ @ np.ravel(x_)) / np.linalg.norm(bn)
                if not rel <= 1e-5:
                    ctx.fail('blackbox/sequence/wrong-system', 'call %d of %s (verb=%s): |b - A x|/|b| = %.3g for the matrix of THAT call' % (k_ + 1, tag, verb, rel), case)
    # 3. flexible GMRES (right preconditioning: its criterion is the TRUE residual): status 0 must survive recomputation on a
    #    problem where the Givens estimate drifts below the true residual
    for N in (3000, 5000):
        Al = sp.csr_array(poisson((N,), format='csr'))
        np.random.seed(ctx.seed)
        mll = pyamg.smoothed_aggregation_solver(Al)
        bl = np.random.default_rng(0).random(N)
        for tol in (1e-10, 1e-11, 1e-12):
            case = dict(probe='ill-conditioned', accel='fgmres', n=N, tol=tol)
            ctx.mark(case)
            with warnings.catch_warnings():
                warnings.simplefilter('ignore')
                x, info = mll.solve(bl, tol=tol, maxiter=60, accel='fgmres', return_info=True)
            ctx.case(('ill-conditioned', 'fgmres', N, tol), True)
            ctx.count('accel-illcond:fgmres')
            rel = np.linalg.norm(bl - Al @ x) / np.linalg.norm(bl)
            if info == 0 and not rel <= tol * 1.001:
                ctx.fail('accel=fgmres/ill-conditioned/status0-not-converged', '1-D Poisson n=%d: info 0 but the true |r|/|b| = %.3g > tol %g' % (N, rel, tol), case)


def blackbox(ctx):
    import pyamg
    from pyamg.gallery import poisson
    rng = ctx.sub('bb')
    probs = [('poisson-7x7', sp.csr_array(poisson((7, 7), format='csr')), True),
             ('graphlap', sp.csr_array(gen_lap(rng, 30)), True),
             ('upwind-7x7', hier.nonsym_matrix(7), False),
             # large enough for a real multilevel iteration (the black box coarsens down to 500 unknowns), badly scaled
             ('poisson-30x30*1e3', sp.csr_array(poisson((30, 30), format='csr') * 1000.0), True),
             ('upwind-30x30*1e3', sp.csr_array(hier.nonsym_matrix(30) * 1000.0), False)]
    # periodic upwind convection-diffusion-reaction: a nonsymmetric diagonally dominant M-matrix whose row sums EQUAL its
    # column sums (A 1 = A^T 1), on a 1-D ring and on a periodic 2-D grid
    nr = 40
    Sh = sp.csr_array(np.roll(np.eye(nr), 1, axis=1))
    ring = sp.csr_array(3.0 * sp.eye_array(nr) - 2.0 * Sh - 0.5 * Sh.T)
    probs.append(('periodic-upwind-ring-40', ring, False))
    ng = 8
    S1 = sp.csr_array(np.roll(np.eye(ng), 1, axis=1))
    I1 = sp.eye_array(ng)
    torus = sp.csr_array(6.5 * sp.kron(I1, I1) - 2.0 * sp.kron(S1, I1) - 0.5 * sp.kron(S1.T, I1)
                         - 2.5 * sp.kron(I1, S1) - 1.0 * sp.kron(I1, S1.T))
    probs.append(('periodic-upwind-torus-8x8', torus, False))
    # the same on a convection-dominated scale (conjugate gradients diverge on it)
    nc_ = 24          # (576 unknowns: above the 500 at which the black box stops coarsening)
    hc_ = 1.0 / nc_
    Ic = sp.eye_array(nc_, format='csr')
    Sc = sp.csr_array(np.roll(np.eye(nc_), 1, axis=1))
    D2c = (2 * Ic - Sc - Sc.T) / hc_ ** 2
    Dupc = (Ic - Sc.T) / hc_
    cdr = sp.csr_array(sp.kron(Ic, 0.05 * D2c + 1.0 * Dupc) + sp.kron(0.05 * D2c + 0.5 * Dupc, Ic) + sp.eye_array(nc_ * nc_))
    probs.append(('periodic-convection-dominated-24x24', cdr, False))
    for name, A, spd in probs:
        n = A.shape[0]
        existing = None
        for fmt in ('csr', 'bsr', 'dense') if n < 200 else ('csr',):
            Af = A if fmt == 'csr' else (sp.bsr_array(A, blocksize=(1, 1)) if fmt == 'bsr' else A.toarray())
            for shape in ('vec', 'col'):
                for tol in (1e-5, 1e-9):
                    b = np.array([rng.uniform(-1, 1) for _ in range(n)])
                    if shape == 'col':
                        b = b.reshape(-1, 1)
                    case = dict(problem=name, format=fmt, shape=shape, tol=tol, reuse=existing is not None)
                    ctx.mark(case)
                    np.random.seed(ctx.seed + 3)
                    try:
                        import io
                        import contextlib
                        with warnings.catch_warnings(), contextlib.redirect_stdout(io.StringIO()):
                            warnings.simplefilter('ignore')
                            if existing is None:
                                x, existing = pyamg.solve(Af, b, tol=tol, verb=False, return_solver=True)
                            else:
                                x = pyamg.solve(Af, b, tol=tol, verb=False, existing_solver=existing)
                    except Exception as e:   # noqa
                        ctx.fail('blackbox/raises', repr(e), case)
                        continue
                    ctx.case(('bb', name, fmt, shape, tol), True)
                    ctx.count('blackbox:' + ('spd' if spd else 'nonsym'))
                    if np.shape(x) != np.shape(b):
                        ctx.fail('blackbox/shape', 'result %r for b %r' % (np.shape(x), np.shape(b)), case)
                        continue
                    r = np.ravel(b) - A @ np.ravel(x)
                    if spd:
                        rel = np.linalg.norm(r) / np.linalg.norm(b)
                    else:
                        Mop = existing.aspreconditioner()
                        rel = np.linalg.norm(Mop @ r) / np.linalg.norm(Mop @ np.ravel(b))
                    if not rel <= tol * 1.01:
                        ctx.fail('blackbox/tolerance-not-met', 'relative residual %.3g > tol %g' % (rel, tol), case)


def gen_lap(rng, n):
    from .. import gen
    return gen.poisson_like(rng, n)


def search(ctx):
    run(ctx)


def replay(ctx, data):
    ctx.search = True
    run(ctx)
