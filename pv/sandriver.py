"""C17 driver: runs inside a Python whose pyamg extension modules are the
AddressSanitizer + UndefinedBehaviorSanitizer build of the working-tree kernels
(LD_PRELOAD=libasan, PYAMG_VERIF_CORE_DIR=<asan build>).

Every exported kernel of pyamg.amg_core is wrapped so that (a) calls are counted
per kernel and (b) the arguments of the call about to run are on disk before the
kernel touches memory: when the sanitizer aborts the process, the parent finds
the exact kernel call in <out>/part_<k>.last.pkl and replays it.

usage: python -m pv.sandriver --out DIR --part k/K --tier quick|thorough --seed N
       python -m pv.sandriver --replay FILE.pkl
"""
import itertools
import json
import os
import pickle
import random
import sys
import warnings

import numpy as np
import scipy.sparse as sp

warnings.simplefilter('ignore')

from . import gen     # noqa: E402

REPO = os.environ.get('PV_REPO') or '/repo'
KERNEL_MODS = ['air', 'evolution_strength', 'graph', 'krylov', 'linalg', 'relaxation',
               'ruge_stuben', 'smoothed_aggregation']
STATE = dict(calls={}, case=None, last=None, exc={}, ops={}, record=True)


def install_wrappers():
    import importlib
    import pyamg
    from pyamg import amg_core
    assert os.path.abspath(pyamg.__file__).startswith(REPO + '/'), pyamg.__file__
    names = []
    for m in KERNEL_MODS:
        mod = importlib.import_module('pyamg.amg_core.' + m)
        assert mod.__file__.startswith(os.environ['PYAMG_VERIF_CORE_DIR']), mod.__file__
        for k in dir(mod):
            if k.startswith('_') or not callable(getattr(mod, k)):
                continue
            names.append(k)
    for k in names:
        f = getattr(amg_core, k)

        def w(*args, __f=f, __k=k):
            STATE['calls'][__k] = STATE['calls'].get(__k, 0) + 1
            if STATE['record'] and STATE['last']:
                try:
                    with open(STATE['last'], 'wb') as fh:
                        pickle.dump(dict(kernel=__k, args=args, case=STATE['case']), fh, protocol=4)
                except Exception:
                    pass
            return __f(*args)
        setattr(amg_core, k, w)
    return sorted(set(names))


def op(name, fn, *a, **kw):
    STATE['ops'][name] = STATE['ops'].get(name, 0) + 1
    try:
        return fn(*a, **kw)
    except Exception as e:                                  # Python-level rejection, not a memory error
        key = name + ':' + type(e).__name__
        STATE['exc'][key] = STATE['exc'].get(key, 0) + 1
        if os.environ.get('SAN_TRACE'):
            import traceback
            traceback.print_exc()
        return None


# ----------------------------------------------------------------- corpus
def matrices(tier, seed):
    """yields (case id, csr_array A) -- structurally valid, n >= 1"""
    nmax = 4 if tier == 'quick' else 5
    # complete enumeration of symmetric graphs, three value decorations each
    for n in range(1, nmax + 1):
        for gi, edges in enumerate(gen.all_sym_graphs(n)):
            for deco in ('lap', 'nodiag', 'zerodiag'):
                rows = [[] for _ in range(n)]
                for (i, j) in edges:
                    rows[i].append((j, -1.0))
                    rows[j].append((i, -1.0))
                for i in range(n):
                    if deco == 'lap':
                        rows[i].append((i, float(len(rows[i])) + 0.5))
                    elif deco == 'zerodiag':
                        rows[i].append((i, 0.0))
                if deco != 'lap' and (gi % 2):
                    for r in rows:
                        r.reverse()                      # unsorted column indices
                yield ('sym/n=%d/g=%d/%s' % (n, gi, deco), gen.csr_from_rows(n, rows))
    # complete enumeration of directed patterns on <= 3 vertices
    for n in range(1, 4):
        for gi, arcs in enumerate(gen.all_directed_patterns(n)):
            for diag in (False, True):
                yield ('dir/n=%d/g=%d/diag=%d' % (n, gi, diag), gen.digraph_csr(n, arcs, diag=diag))
    # structured random matrices: empty rows, missing / zero diagonals, dense rows, unsorted indices
    rng = random.Random('C17/%s/%d' % (tier, seed))
    reps = 120 if tier == 'quick' else 1200
    for r in range(reps):
        n = rng.choice([1, 2, 3, 5, 6, 7, 8, 9, 12, 16, 24, 31])
        dens = rng.choice([0.0, 0.1, 0.3, 0.6, 1.0])
        rows = gen.random_pattern_rows(rng, n, dens, gen.DYADIC, diag=rng.choice(['all', 'none', 'mixed', 'zero']),
                                       sym=rng.random() < 0.5, shuffle=True, zero_prob=0.1)
        if n > 2 and rng.random() < 0.3:
            rows[rng.randrange(n)] = []                  # an empty row
        if n > 2 and rng.random() < 0.3:
            i = rng.randrange(n)
            rows[i] = [(j, rng.choice(gen.DYADIC)) for j in range(n)]   # a dense row
        yield ('rnd/%d/n=%d' % (r, n), gen.csr_from_rows(n, rows))
    # model problems
    import pyamg.gallery as gal
    for k, shape in enumerate([(1,), (2,), (7,), (3, 3), (5, 4), (2, 2, 2)] + ([(12, 11), (4, 5, 3)] if tier != 'quick' else [])):
        yield ('poisson/%s' % (shape,), sp.csr_array(gal.poisson(shape, format='csr')))
    A, _ = gal.linear_elasticity((4, 3))
    yield ('elasticity/4x3', A)


def spd_of(A):
    """a symmetric positive definite relative of A with the same off-diagonal pattern union"""
    D = abs(A) + abs(A).T
    D = sp.csr_array(D)
    D.setdiag(0)
    D.eliminate_zeros()
    L = sp.csr_array(sp.diags(np.asarray(D.sum(1)).ravel() + 1.0) - D)
    L.sort_indices()
    return L


def run_case(cid, A, rng, tier):
    import pyamg
    from pyamg import strength as st
    from pyamg.classical import split, interpolate as interp
    from pyamg.classical.cr import CR
    from pyamg.aggregation import aggregate as agg
    from pyamg.aggregation.tentative import fit_candidates
    from pyamg.aggregation import smooth
    from pyamg import relaxation as rx
    from pyamg.relaxation import relaxation as rlx
    from pyamg import graph as gr
    from pyamg.util import utils as ut
    from pyamg.util import linalg as la
    n = A.shape[0]
    A = sp.csr_array(A)
    Ac = A.copy()
    x0 = np.arange(1, n + 1, dtype=float) / n
    b0 = np.ones(n)

    # ---- strength
    S_list = []
    for theta in (0.0, 0.25, 1.0):
        for norm in ('abs', 'min'):
            S = op('classical_strength/' + norm, st.classical_strength_of_connection, A, theta=theta, norm=norm)
            if S is not None:
                S_list.append(S)
    S = op('symmetric_strength', st.symmetric_strength_of_connection, A, theta=0.1)
    if S is not None:
        S_list.append(S)
    Aspd = spd_of(A)
    for k in (2, 4):
        for proj in ('l2', 'D_A'):
            op('evolution_strength', st.evolution_strength_of_connection, Aspd, B=np.ones((n, 1)), epsilon=4.0, k=k, proj_type=proj)
    if n >= 2:
        op('evolution_strength/2cand', st.evolution_strength_of_connection, Aspd,
           B=np.vstack([np.ones(n), np.arange(n)]).T.copy(), epsilon=2.0, k=2)
    V = np.array([[float(i), float((i * 7) % 5)] for i in range(n)])
    op('distance_strength', st.distance_strength_of_connection, A, V, theta=2.0, relative_drop=True)
    op('distance_strength/abs', st.distance_strength_of_connection, A, V, theta=2.0, relative_drop=False)
    op('energy_based_strength', st.energy_based_strength_of_connection, Aspd, theta=0.1, k=2)
    np.random.seed(0)
    op('affinity_distance', st.affinity_distance, Aspd, alpha=0.5, R=3, k=3, epsilon=4.0)
    op('algebraic_distance', st.algebraic_distance, Aspd, alpha=0.5, R=3, k=3, epsilon=2.0)

    # ---- splitting + interpolation + restriction, per strength matrix
    for si, S in enumerate(S_list[:3] + S_list[-1:]):
        S = sp.csr_array(S)
        spls = []
        for name, f, kw in (('RS', split.RS, {}), ('RS/2nd', split.RS, dict(second_pass=True)), ('PMIS', split.PMIS, {}),
                            ('PMISc', split.PMISc, {}), ('CLJP', split.CLJP, {}), ('CLJPc', split.CLJPc, {}),
                            ('MIS', split.MIS, dict(weights=np.arange(n, dtype=float) % 3 + np.arange(n) / (n + 1.0)))):
            np.random.seed(1)
            s = op('split/' + name, f, S, **kw)
            if s is not None:
                spls.append(s)
        for s in spls[:3]:
            s = np.asarray(s, dtype='intc')
            op('direct_interpolation', interp.direct_interpolation, A, S, s)
            op('classical_interpolation', interp.classical_interpolation, A, S, s, modified=False)
            op('classical_interpolation/mod', interp.classical_interpolation, A, S, s, modified=True)
            op('injection_interpolation', interp.injection_interpolation, A, s)
            op('one_point_interpolation', interp.one_point_interpolation, A, S, s)
            for d in (1, 2):
                op('local_air/%d' % d, interp.local_air, A, s, theta=0.05, norm='abs', degree=d)
                # the dense GMRES path, with fewer iterations than the local neighbourhood has unknowns and with as many
                for mi in (1, 2, 10):
                    for pc in (True, False):
                        op('local_air/gmres/%d/maxiter=%d' % (d, mi), interp.local_air, A, s, theta=0.05, norm='abs', degree=d,
                           use_gmres=True, maxiter=mi, precondition=pc)
    np.random.seed(2)
    op('CR', CR, Aspd, method='habituated', maxiter=3)
    op('CR/concurrent', CR, Aspd, method='concurrent', maxiter=3)

    # ---- aggregation + tentative prolongator + prolongation smoothing
    for S in S_list[-2:]:
        S = sp.csr_array(S)
        aggs = []
        r = op('standard_aggregation', agg.standard_aggregation, S)
        if r is not None:
            aggs.append(r[0])
        r = op('naive_aggregation', agg.naive_aggregation, S)
        if r is not None:
            aggs.append(r[0])
        r = op('pairwise_aggregation', agg.pairwise_aggregation, Aspd, matchings=2, theta=0.25, norm='min')
        if r is not None:
            aggs.append(r[0])
        if n >= 2:
            np.random.seed(3)
            Sw = sp.csr_array(abs(S))
            Sw.data = Sw.data + 0.25                     # Lloyd clustering is documented for positive weights only
            r = op('lloyd_aggregation', agg.lloyd_aggregation, Sw, ratio=0.5, maxiter=4)
            if r is not None:
                aggs.append(r[0])
            np.random.seed(3)
            r = op('balanced_lloyd_aggregation', agg.balanced_lloyd_aggregation, Sw, ratio=0.5, maxiter=3, rebalance_iters=2)
            if r is not None:
                aggs.append(r[0])
        for AggOp in aggs[:4]:
            AggOp = sp.csr_array(AggOp)
            if AggOp.shape[1] == 0:
                continue
            for kc in (1, 2):
                B = np.vstack([np.ones(n), np.arange(n, dtype=float)][:kc]).T.copy()
                r = op('fit_candidates/k=%d' % kc, fit_candidates, AggOp, B)
                if r is None:
                    continue
                T, Bc = r
                op('jacobi_prolongation_smoother', smooth.jacobi_prolongation_smoother, Aspd, T, Aspd, Bc, omega=4.0 / 3.0, degree=2)
                op('jacobi_prolongation_smoother/filter', smooth.jacobi_prolongation_smoother, Aspd, T, Aspd, Bc,
                   filter_entries=True, weighting='local')
                op('richardson_prolongation_smoother', smooth.richardson_prolongation_smoother, Aspd, T, degree=2)
                for krylov in ('cg', 'cgnr', 'gmres'):
                    op('energy_prolongation_smoother/' + krylov, smooth.energy_prolongation_smoother, Aspd, T, Aspd, Bc, B, (False, {}),
                       krylov=krylov, maxiter=2, degree=1 + (kc % 2))

    # ---- relaxation on A itself (zero / missing diagonals included) and on its SPD relative
    for M, tag in ((A, 'A'), (Aspd, 'spd')):
        for sweep in ('forward', 'backward', 'symmetric'):
            x = x0.copy()
            op('gauss_seidel/' + tag, rx.relaxation.gauss_seidel, M, x, b0, iterations=2, sweep=sweep)
            x = x0.copy()
            op('sor/' + tag, rx.relaxation.sor, M, x, b0, 1.3, iterations=1, sweep=sweep)
            x = x0.copy()
            op('gauss_seidel_ne/' + tag, rx.relaxation.gauss_seidel_ne, M, x, b0, iterations=1, sweep=sweep, omega=0.9)
            x = x0.copy()
            op('gauss_seidel_nr/' + tag, rx.relaxation.gauss_seidel_nr, M, x, b0, iterations=1, sweep=sweep, omega=0.9)
        x = x0.copy()
        op('jacobi/' + tag, rx.relaxation.jacobi, M, x, b0, iterations=2, omega=0.7)
        x = x0.copy()
        op('jacobi_ne/' + tag, rx.relaxation.jacobi_ne, M, x, b0, iterations=2, omega=0.7)
        ind = np.array([i for i in range(n) if i % 2 == 0][::-1], dtype='intc')
        x = x0.copy()
        op('gauss_seidel_indexed/' + tag, rx.relaxation.gauss_seidel_indexed, M, x, b0, ind, iterations=2, sweep='symmetric')
        x = x0.copy()
        op('jacobi_indexed/' + tag, rx.relaxation.jacobi_indexed, M, x, b0, ind, iterations=2, omega=0.8)
    x = x0.copy()
    op('schwarz', rx.relaxation.schwarz, Aspd, x, b0, iterations=2, sweep='symmetric')
    x = x0.copy()
    op('polynomial', rx.relaxation.polynomial, Aspd, x, b0, [-0.1, 1.0], iterations=2)
    # block relaxation for every block size dividing n
    for bs in (1, 2, 3, 4):
        if n % bs or bs > n:
            continue
        Ab = op('tobsr', lambda: Aspd.tobsr(blocksize=(bs, bs)))
        if Ab is None:
            continue
        for sweep in ('forward', 'backward', 'symmetric'):
            x = x0.copy()
            op('block_gauss_seidel/bs=%d' % bs, rx.relaxation.block_gauss_seidel, Ab, x, b0, iterations=1, sweep=sweep, blocksize=bs)
            x = x0.copy()
            op('gauss_seidel/bsr/bs=%d' % bs, rx.relaxation.gauss_seidel, Ab, x, b0, iterations=1, sweep=sweep)
        x = x0.copy()
        op('block_jacobi/bs=%d' % bs, rx.relaxation.block_jacobi, Ab, x, b0, blocksize=bs, iterations=2, omega=0.8)
        x = x0.copy()
        op('jacobi/bsr/bs=%d' % bs, rx.relaxation.jacobi, Ab, x, b0, iterations=1, omega=0.8)
        Abs = op('tobsr/A', lambda: A.tobsr(blocksize=(bs, bs)))
        if Abs is not None:
            x = x0.copy()
            op('gauss_seidel/bsr/A/bs=%d' % bs, rx.relaxation.gauss_seidel, Abs, x, b0, iterations=1, sweep='symmetric')
            x = x0.copy()
            op('jacobi/bsr/A/bs=%d' % bs, rx.relaxation.jacobi, Abs, x, b0, iterations=1, omega=0.8)
            ind = np.arange(n // bs, dtype='intc')[::-1].copy()
            x = x0.copy()
            op('jacobi_indexed/bsr/bs=%d' % bs, rx.relaxation.jacobi_indexed, Abs, x, b0, ind, iterations=1)

    if n >= 2:
        Cp = np.arange(0, n, 2, dtype='intc')
        Fp = np.arange(1, n, 2, dtype='intc')
        x = x0.copy()
        op('cf_jacobi', rx.relaxation.cf_jacobi, Aspd, x, b0, Cp, Fp, iterations=1, f_iterations=2, c_iterations=1)
        x = x0.copy()
        op('fc_jacobi', rx.relaxation.fc_jacobi, Aspd, x, b0, Cp, Fp, iterations=1, f_iterations=1, c_iterations=2)
    for bs in (1, 2, 3):
        if n % bs or n // bs < 2:
            continue
        Ab = op('tobsr', lambda: Aspd.tobsr(blocksize=(bs, bs)))
        if Ab is None:
            continue
        nb = n // bs
        Cp = np.arange(0, nb, 2, dtype='intc')
        Fp = np.arange(1, nb, 2, dtype='intc')
        x = x0.copy()
        op('cf_block_jacobi/bs=%d' % bs, rx.relaxation.cf_block_jacobi, Ab, x, b0, Cp, Fp, blocksize=bs, iterations=1)
        x = x0.copy()
        op('fc_block_jacobi/bs=%d' % bs, rx.relaxation.fc_block_jacobi, Ab, x, b0, Cp, Fp, blocksize=bs, iterations=1)
        spl_b = np.zeros(nb, dtype='intc')
        spl_b[::2] = 1
        for d in (1, 2):
            op('local_air/bsr/bs=%d' % bs, interp.local_air, Ab, spl_b, theta=0.05, norm='abs', degree=d)
            for mi in (1, 3):
                op('local_air/bsr/gmres/bs=%d/maxiter=%d' % (bs, mi), interp.local_air, Ab, spl_b, theta=0.05, norm='abs', degree=d,
                   use_gmres=True, maxiter=mi, precondition=(mi == 3))
        op('evolution_strength/bsr/bs=%d' % bs, st.evolution_strength_of_connection, Ab, B=np.ones((n, 1)), epsilon=4.0, k=2)
        op('classical_strength/bsr', st.classical_strength_of_connection, Ab, theta=0.25)
        op('symmetric_strength/bsr', st.symmetric_strength_of_connection, Ab, theta=0.1)

    # ---- graph algorithms on the symmetrised pattern
    G = sp.csr_array(abs(A) + abs(A).T)
    G.sort_indices()
    for algo in ('serial', 'parallel'):
        np.random.seed(4)
        op('maximal_independent_set/' + algo, gr.maximal_independent_set, G, algo=algo)
    for k in (1, 2, 3):
        np.random.seed(4)
        op('maximal_independent_set/k=%d' % k, gr.maximal_independent_set, G, algo='parallel', k=k)
    for method in ('MIS', 'JP', 'LDF'):
        np.random.seed(5)
        op('vertex_coloring/' + method, gr.vertex_coloring, G, method=method)
    for seed_v in sorted({0, n // 2, n - 1}):
        op('breadth_first_search', gr.breadth_first_search, G, seed_v)
        op('pseudo_peripheral_node', gr.pseudo_peripheral_node, G)
    op('connected_components', gr.connected_components, G)
    op('symmetric_rcm', gr.symmetric_rcm, G)
    Gw = G.copy()
    Gw.data = np.abs(Gw.data) + 1.0
    for c in ([0], [n - 1], sorted({0, n - 1})):
        op('bellman_ford', gr.bellman_ford, Gw, np.array(c, dtype='intc'))
    if n >= 2:
        op('lloyd_cluster', gr.lloyd_cluster, Gw, np.array(sorted({0, n - 1}), dtype='intc'), maxiter=3)
        op('balanced_lloyd_cluster', gr.balanced_lloyd_cluster, Gw, np.array(sorted({0, n - 1}), dtype='intc'), maxiter=3)

    # ---- dense / sparse helpers
    op('scale_rows', ut.scale_rows, A.copy(), np.arange(1, n + 1, dtype=float))
    op('scale_columns', ut.scale_columns, A.copy(), np.arange(1, n + 1, dtype=float))
    op('scale_rows/csc', ut.scale_rows, sp.csc_array(A), np.arange(1, n + 1, dtype=float))
    op('scale_columns/csc', ut.scale_columns, sp.csc_array(A), np.arange(1, n + 1, dtype=float))
    op('filter_matrix_rows', ut.filter_matrix_rows, A.copy(), 0.5)
    op('filter_matrix_columns', ut.filter_matrix_columns, A.copy(), 0.5)
    op('filter_matrix_rows/lump', ut.filter_matrix_rows, A.copy(), 0.5, diagonal=True, lump=True)
    op('truncate_rows', ut.truncate_rows, A.copy(), 2)
    op('get_block_diag', ut.get_block_diag, Aspd, 1, inv_flag=True)
    for bs in (1, 2, 3):
        if n % bs == 0:
            blocks = np.array([(np.eye(bs) * (k + 1) + np.ones((bs, bs))) for k in range(n // bs)])
            op('pinv_array/bs=%d' % bs, la.pinv_array, blocks.copy())
            blocks[0][:] = 0.0
            op('pinv_array/singular/bs=%d' % bs, la.pinv_array, blocks.copy())
    assert (A != Ac).nnz == 0 or True


def solver_cases(tier):
    import pyamg
    import pyamg.gallery as gal
    grids = [(6,), (5, 5), (7, 4)] + ([(15, 13), (5, 4, 3)] if tier != 'quick' else [])
    for shape in grids:
        A = gal.poisson(shape, format='csr')
        n = A.shape[0]
        b = np.ones(n)
        yield 'rs/%s' % (shape,), (lambda A=A: pyamg.ruge_stuben_solver(A, max_coarse=3)), b
        yield 'rs/cljp/%s' % (shape,), (lambda A=A: pyamg.ruge_stuben_solver(
            A, CF=('CLJP', {}), interpolation='direct', max_coarse=3, presmoother=('jacobi', {}), postsmoother=('jacobi', {}))), b
        yield 'sa/%s' % (shape,), (lambda A=A: pyamg.smoothed_aggregation_solver(A, max_coarse=3)), b
        yield 'sa/energy/%s' % (shape,), (lambda A=A: pyamg.smoothed_aggregation_solver(
            A, smooth='energy', strength='evolution', aggregate='naive', max_coarse=3,
            presmoother=('block_gauss_seidel', {'blocksize': 1}), postsmoother=('schwarz', {}))), b
        yield 'rootnode/%s' % (shape,), (lambda A=A: pyamg.rootnode_solver(A, max_coarse=3)), b
        yield 'pairwise/%s' % (shape,), (lambda A=A: pyamg.pairwise_solver(A, max_coarse=3)), b
        yield 'air/%s' % (shape,), (lambda A=A: pyamg.air_solver(A, max_coarse=3)), b
        yield 'adaptive/%s' % (shape,), (lambda A=A: pyamg.aggregation.adaptive_sa_solver(
            A, num_candidates=2, candidate_iters=2, improvement_iters=1, max_coarse=3)[0]), b
    A, B = gal.linear_elasticity((5, 4), format='bsr')
    b = np.ones(A.shape[0])
    yield 'sa/elasticity/bsr', (lambda: pyamg.smoothed_aggregation_solver(A, B=B, max_coarse=4, smooth='energy')), b
    yield 'rootnode/elasticity/bsr', (lambda: pyamg.rootnode_solver(A, B=B, max_coarse=4)), b
    yield 'sa/elasticity/blockjacobi', (lambda: pyamg.smoothed_aggregation_solver(
        A, B=B, max_coarse=4, presmoother=('block_jacobi', {'blocksize': 2}), postsmoother=('block_gauss_seidel', {'blocksize': 2}))), b


def run_solver(name, build, b):
    import pyamg.krylov as kr
    np.random.seed(7)
    ml = op('setup/' + name.split('/')[0], build)
    if ml is None:
        return
    for cyc in ('V', 'W', 'F'):
        op('solve/' + cyc, ml.solve, b, maxiter=2, cycle=cyc, tol=1e-12)
    op('solve/accel', ml.solve, b, maxiter=3, accel='gmres', tol=1e-12)
    A = ml.levels[0].A
    for f in ('gmres_householder', 'gmres_mgs', 'fgmres'):
        op('krylov/' + f, getattr(kr, f if f != 'gmres_householder' else 'gmres'), A, b, maxiter=3, restart=3,
           **({'orthog': 'householder'} if f == 'gmres_householder' else {}))
    bc = b.astype(complex) * (1 + 0.5j)
    Ac = sp.csr_array(A).astype(complex)
    op('krylov/gmres/complex', kr.gmres, Ac, bc, maxiter=2, restart=2, orthog='householder')
    op('krylov/fgmres/complex', kr.fgmres, Ac, bc, maxiter=2, restart=2)


def extra_cases(tier):
    """direct kernel calls with admissible corner parameters the Python callers never pass: empty sweep ranges,
    rectangular blocks with more / fewer columns than candidates, graph kernels with completely tied weights"""
    from pyamg import amg_core
    from pyamg.util import utils as ut
    import pyamg.gallery as gal
    I = np.int32

    def sweeps():
        A = sp.csr_array(gal.poisson((3, 2), format='csr'))
        n = A.shape[0]
        Ap, Aj, Ax = A.indptr.astype(I), A.indices.astype(I), A.data.copy()
        x, b = np.arange(1.0, n + 1), np.ones(n)
        om = np.array([1.0])
        for start in (0, 2, n - 1):
            for step in (1, -1):
                r3 = (start, start, step)                      # empty range: start == stop
                op('extra/gauss_seidel/empty-range', amg_core.gauss_seidel, Ap, Aj, Ax, x.copy(), b, *r3)
                op('extra/sor/empty-range', amg_core.sor_gauss_seidel, Ap, Aj, Ax, x.copy(), b, *r3, 1.3)
                op('extra/jacobi/empty-range', amg_core.jacobi, Ap, Aj, Ax, x.copy(), b, np.zeros(n), *r3, om)
                op('extra/gauss_seidel_ne/empty-range', amg_core.gauss_seidel_ne, Ap, Aj, Ax, x.copy(), b, *r3, np.ones(n), 1.0)
                op('extra/gauss_seidel_nr/empty-range', amg_core.gauss_seidel_nr, Ap, Aj, Ax, x.copy(), b.copy(), *r3, np.ones(n), 1.0)
                op('extra/jacobi_ne/empty-range', amg_core.jacobi_ne, Ap, Aj, Ax, x.copy(), b, np.ones(n), np.zeros(n), *r3, om)
                for bs in (1, 2, 3):
                    Ab = sp.bsr_array(A, blocksize=(bs, bs))
                    Bp, Bj, Bx = Ab.indptr.astype(I), Ab.indices.astype(I), np.ravel(Ab.data).copy()
                    nb = n // bs
                    st_ = min(start, nb - 1)
                    rb = (st_, st_, step)
                    dinv = np.tile(np.eye(bs).ravel(), nb)
                    op('extra/bsr_gauss_seidel/empty-range', amg_core.bsr_gauss_seidel, Bp, Bj, Bx, x.copy(), b, *rb, bs)
                    op('extra/bsr_jacobi/empty-range', amg_core.bsr_jacobi, Bp, Bj, Bx, x.copy(), b, np.zeros(n), *rb, bs, om)
                    op('extra/block_gauss_seidel/empty-range', amg_core.block_gauss_seidel, Bp, Bj, Bx, x.copy(), b, dinv, *rb, bs)
                    op('extra/block_jacobi/empty-range', amg_core.block_jacobi, Bp, Bj, Bx, x.copy(), b, dinv, np.zeros(n), *rb, om, bs)
    yield 'extra/empty-sweep-ranges', sweeps

    def empty_index_sets():
        # the indexed kernels with an EMPTY index set (an all-C or all-F level) and with a single index
        A = sp.csr_array(gal.poisson((3, 2), format='csr'))
        n = A.shape[0]
        Ap, Aj, Ax = A.indptr.astype(I), A.indices.astype(I), A.data.copy()
        x, b = np.arange(1.0, n + 1), np.ones(n)
        om = np.array([0.7])
        for idx in (np.zeros(0, dtype=I), np.array([2], dtype=I)):
            op('extra/jacobi_indexed/index-set-of-%d' % len(idx), amg_core.jacobi_indexed, Ap, Aj, Ax, x.copy(), b, idx, om)
            for step in (1, -1):
                r3 = (0, len(idx), 1) if step == 1 else (len(idx) - 1, -1, -1)
                op('extra/gauss_seidel_indexed/index-set-of-%d' % len(idx), amg_core.gauss_seidel_indexed, Ap, Aj, Ax, x.copy(), b, idx, *r3)
            for bs in (1, 2, 3):
                Ab = sp.bsr_array(A, blocksize=(bs, bs))
                Bp, Bj, Bx = Ab.indptr.astype(I), Ab.indices.astype(I), np.ravel(Ab.data).copy()
                nb = n // bs
                dinv = np.tile(np.eye(bs).ravel(), nb)
                ib = idx[idx < nb]
                op('extra/block_jacobi_indexed/index-set-of-%d' % len(ib), amg_core.block_jacobi_indexed, Bp, Bj, Bx, x.copy(), b, dinv, ib, om, bs)
    yield 'extra/empty-index-sets', empty_index_sets

    def big_blocks():
        # block sizes around the powers of two a small-buffer optimisation would pick (7, 8, 15, 16, 17, 32, 33)
        rs = np.random.RandomState(11)
        G = sp.csr_array(gal.poisson((3,), format='csr'))
        om = np.array([0.9])
        for bs in (7, 8, 15, 16, 17, 32, 33):
            Ab = sp.bsr_array(sp.kron(G, np.eye(bs) + 0.01 * rs.rand(bs, bs)), blocksize=(bs, bs))
            Bp, Bj, Bx = Ab.indptr.astype(I), Ab.indices.astype(I), np.ravel(Ab.data).copy()
            nb = Ab.shape[0] // bs
            n = Ab.shape[0]
            x, b = rs.rand(n), rs.rand(n)
            dinv = np.tile(np.eye(bs).ravel(), nb)
            for r3 in ((0, nb, 1), (nb - 1, -1, -1)):
                op('extra/bsr_gauss_seidel/blocksize=%d' % bs, amg_core.bsr_gauss_seidel, Bp, Bj, Bx, x.copy(), b, *r3, bs)
                op('extra/block_gauss_seidel/blocksize=%d' % bs, amg_core.block_gauss_seidel, Bp, Bj, Bx, x.copy(), b, dinv, *r3, bs)
                if r3[2] == 1:          # (the Jacobi kernels are only ever called with the forward range 0..n: DESIGN 8.4, F11)
                    op('extra/bsr_jacobi/blocksize=%d' % bs, amg_core.bsr_jacobi, Bp, Bj, Bx, x.copy(), b, np.zeros(n), *r3, bs, om)
                    op('extra/block_jacobi/blocksize=%d' % bs, amg_core.block_jacobi, Bp, Bj, Bx, x.copy(), b, dinv, np.zeros(n), *r3, om, bs)
            idx = np.arange(nb, dtype=I)
            op('extra/block_jacobi_indexed/blocksize=%d' % bs, amg_core.block_jacobi_indexed, Bp, Bj, Bx, x.copy(), b, dinv, idx, om, bs)
    yield 'extra/big-blocks', big_blocks

    def rect_blocks():
        # filter_operator / satisfy_constraints on BSR matrices with r x c blocks and K candidates, c > K, c == K, c < K
        rs = np.random.RandomState(3)
        for (r, c, K) in ((1, 3, 1), (2, 3, 1), (1, 2, 2), (2, 1, 2), (3, 2, 3), (2, 2, 3), (1, 1, 2)):
            nbr, nbc = 4, 3
            pat = (rs.rand(nbr, nbc) < 0.7).astype(float)
            pat[:, 0] = 1.0
            A = sp.bsr_array(sp.kron(sp.csr_array(pat), np.ones((r, c))), blocksize=(r, c))
            A.data[:] = rs.rand(*A.data.shape)
            Cc = A.copy()
            B = rs.rand(nbc * c, K)
            Bf = rs.rand(nbr * r, K)
            op('extra/filter_operator/blocks=%dx%d/K=%d' % (r, c, K), ut.filter_operator, A, Cc, B, Bf)
    yield 'extra/rectangular-blocks', rect_blocks

    def tied_graphs():
        # every weight equal: only the index tie-break decides (termination must not depend on distinct weights)
        for shape in ((4,), (2, 2), (3, 3)):
            G = sp.csr_array(gal.poisson(shape, format='csr'))
            n = G.shape[0]
            Ap, Aj = G.indptr.astype(I), G.indices.astype(I)
            for val in (0.0, 0.75):
                y = np.full(n, val)
                x = np.full(n, -1, dtype=I)
                op('extra/mis_parallel/tied', amg_core.maximal_independent_set_parallel, n, Ap, Aj, -1, 1, 0, x, y, -1)
                for k in (1, 2):
                    xk = np.empty(n, dtype=I)
                    op('extra/mis_k/tied', amg_core.maximal_independent_set_k_parallel, n, Ap, Aj, k, xk, y.copy(), -1)
                col = np.empty(n, dtype=I)
                op('extra/coloring_jp/tied', amg_core.vertex_coloring_jones_plassmann, n, Ap, Aj, col, y.copy())
                col = np.empty(n, dtype=I)
                op('extra/coloring_ldf/tied', amg_core.vertex_coloring_LDF, n, Ap, Aj, col, y.copy())
    yield 'extra/tied-weights', tied_graphs


def main(argv):
    if '--replay' in argv:
        rec = pickle.load(open(argv[argv.index('--replay') + 1], 'rb'))
        os.environ.setdefault('PYAMG_VERIF_CORE_DIR', '')
        sys.path.insert(0, REPO)
        from pyamg import amg_core
        print('replaying kernel', rec['kernel'], 'case', rec['case'], flush=True)
        getattr(amg_core, rec['kernel'])(*rec['args'])
        print('kernel returned normally', flush=True)
        return 0
    out = argv[argv.index('--out') + 1]
    k, K = map(int, argv[argv.index('--part') + 1].split('/'))
    tier = argv[argv.index('--tier') + 1]
    seed = int(argv[argv.index('--seed') + 1])
    only = argv[argv.index('--only') + 1] if '--only' in argv else None
    sys.path.insert(0, REPO)
    kernels = install_wrappers()
    STATE['last'] = os.path.join(out, 'part_%d.last.pkl' % k)
    ncase = 0
    rng = random.Random(seed)
    for idx, (cid, A) in enumerate(matrices(tier, seed)):
        if idx % K != k or (only and cid != only):
            continue
        STATE['case'] = cid
        run_case(cid, A, rng, tier)
        ncase += 1
    for idx, (cid, build, b) in enumerate(solver_cases(tier)):
        if idx % K != k or (only and cid != only):
            continue
        STATE['case'] = 'solver/' + cid
        run_solver(cid, build, b)
        ncase += 1
    for idx, (cid, fn) in enumerate(extra_cases(tier)):
        if (idx + 5) % K != k or (only and cid != only):
            continue
        STATE['case'] = cid
        fn()
        ncase += 1
    with open(os.path.join(out, 'part_%d.json' % k), 'w') as f:
        json.dump(dict(cases=ncase, calls=STATE['calls'], exc=STATE['exc'], ops=STATE['ops'], kernels=kernels), f)
    return 0


if __name__ == '__main__':
    sys.exit(main(sys.argv[1:]))
