"""A zoo of small hierarchies from every public constructor (shared by the
hierarchy-level checks C01-C05, C08, C15)."""
import numpy as np
import scipy.sparse as sp


def hpd_matrices(rng, small=True):
    """named HPD test matrices (CSR), real and complex"""
    from pyamg.gallery import poisson, stencil_grid, linear_elasticity
    from pyamg.gallery.diffusion import diffusion_stencil_2d
    from . import gen
    out = []
    out.append(('poisson1d-12', sp.csr_array(poisson((12,), format='csr'))))
    out.append(('poisson2d-6x5', sp.csr_array(poisson((6, 5), format='csr'))))
    out.append(('poisson3d-3x3x3', sp.csr_array(poisson((3, 3, 3), format='csr'))))
    st = diffusion_stencil_2d(epsilon=0.01, theta=np.pi / 5, type='FE')
    out.append(('aniso-6x6', sp.csr_array(stencil_grid(st, (6, 6), format='csr'))))
    n = rng.choice([9, 14, 20])
    out.append(('graphlap-%d' % n, sp.csr_array(gen.poisson_like(rng, n))))
    A, B = linear_elasticity((3, 3))
    out.append(('elasticity-3x3', sp.bsr_array(A, blocksize=(2, 2))))
    D = sp.csr_array(poisson((5, 4), format='csr')).toarray()
    u = np.exp(1j * np.array([rng.uniform(0, 6.28) for _ in range(D.shape[0])]))
    out.append(('complex-rot-5x4', sp.csr_array(np.diag(u) @ D @ np.diag(u.conj()))))
    return out


def nonsym_matrix(n=6):
    """nonsymmetric diagonally dominant M-matrix (upwind advection-diffusion)"""
    from pyamg.gallery import stencil_grid
    st = np.array([[0.0, -1.0, 0.0], [-2.0, 4.75, -0.5], [0.0, -1.25, 0.0]])
    return sp.csr_array(stencil_grid(st, (n, n), format='csr'))


def builders():
    """(name, f(A) -> ml, kind) for every public constructor with options that give >= 2 levels
    on the small matrices above"""
    import pyamg
    return [
        ('rs', lambda A: pyamg.ruge_stuben_solver(sp.csr_array(A), max_coarse=3), 'sym'),
        ('rs-pmis-classical', lambda A: pyamg.ruge_stuben_solver(
            sp.csr_array(A), CF='PMIS', interpolation='classical', max_coarse=3), 'sym'),
        ('sa', lambda A: pyamg.smoothed_aggregation_solver(A, max_coarse=3), 'sym'),
        ('sa-energy', lambda A: pyamg.smoothed_aggregation_solver(
            A, smooth=('energy', {'krylov': 'cg', 'maxiter': 2}), max_coarse=3), 'sym'),
        ('rootnode', lambda A: pyamg.rootnode_solver(A, max_coarse=3), 'sym'),
        ('pairwise', lambda A: pyamg.pairwise_solver(sp.csr_array(A), max_coarse=3), 'sym'),
        ('onelevel', lambda A: pyamg.smoothed_aggregation_solver(A, max_levels=1), 'sym'),
    ]


def air_builder():
    import pyamg
    return ('air', lambda A: pyamg.air_solver(sp.csr_array(A), max_coarse=4), 'nonsym')


def dense_of(M):
    return M.toarray() if sp.issparse(M) else np.asarray(M)
