"""./check <ID> [--tier quick|thorough] [--replay FILE]

Parent process: runs the child (the actual check) and turns an abnormal child
termination (a crashing native kernel, a hang) into a reported violation.
Child process: gate + proofs + native rebuild + correspondence + oracle, then
the violation protocol of DESIGN.md section 2.5."""
import hashlib
import importlib
import json
import os
import subprocess
import sys
import time
import traceback

from . import core
from .core import VERIF, log


def write_replay(pid, payload):
    rdir = os.path.join(VERIF, 'replays') if not core.TAG else os.path.join(VERIF, 'build', 'mut', core.TAG)
    os.makedirs(rdir, exist_ok=True)
    h = hashlib.sha1(json.dumps(payload, sort_keys=True, default=str).encode()).hexdigest()[:10]
    path = os.path.join(rdir, '%s-%s.json' % (pid, h))
    with open(path, 'w') as f:
        json.dump(payload, f, indent=1, default=str, sort_keys=True)
    return path


def write_evidence(pid, ev):
    edir = os.path.join(VERIF, 'evidence') if not core.TAG else os.path.join(VERIF, 'build', 'mut', core.TAG)
    os.makedirs(edir, exist_ok=True)
    final = os.path.join(edir, pid + '.json')
    tmp = final + '.tmp_' + core.RUNID          # written whole, then renamed: a concurrent reader never sees half a file
    with open(tmp, 'w') as f:
        json.dump(ev, f, indent=1, default=str)
    os.replace(tmp, final)


def child(pid, tier, seed, replay):
    t0 = time.time()
    mod = importlib.import_module('pv.props.' + pid.lower())
    violations = []          # (replay path, suffix)
    broken = []              # textual reasons: proofs / correspondence broken

    # 1. proof obligations ---------------------------------------------------
    ths = core.theorems_of(pid)
    discharged = 0
    axioms = {}
    if not replay:
        g = core.gate()
        if g:
            broken.append('grep gate: ' + '; '.join(g[:5]))
        rc, tail = core.coq_make()
        rc2, tail2 = core.coq_make(['Props/%s.vo' % pid])
        if rc2 != 0:
            broken.append('proof obligations of Props/%s.v do not compile: %s' % (pid, tail2[-1500:]))
        else:
            axioms, err = core.print_assumptions(pid)
            if axioms is None:
                broken.append('Print Assumptions failed: ' + err)
                axioms = {}
            else:
                discharged = len(axioms)
        extra = getattr(mod, 'COQ_DEPS', [])
        for tgt in extra:
            r3, t3 = core.coq_make([tgt])
            if r3 != 0:
                broken.append('%s does not compile: %s' % (tgt, t3[-800:]))

    # 2. native rebuild from the working tree -----------------------------------
    try:
        core_dir = core.native_build()
    except SystemExit:
        core_dir = None
        broken.append('native kernels of the working tree do not build (see stderr)')
    ctx = core.Ctx(pid, tier, seed, core_dir)
    if core_dir:
        core.enable_impl(core_dir)

    # 3. correspondence + oracle ---------------------------------------------
    if core_dir:
        try:
            if replay:
                mod.replay(ctx, json.load(open(replay)))
            else:
                # the thorough tier repeats the (cheap) randomised modules with further sub-seeds
                rounds = getattr(mod, 'THOROUGH_ROUNDS', 1) if tier == 'thorough' else 1
                for rnd in range(rounds):
                    ctx.seed = seed + 7919 * rnd
                    mod.run(ctx)
                    if ctx.disagreements or len(ctx.failures) > 5000:
                        break
                ctx.seed = seed
                if rounds > 1:
                    ctx.notes.append('thorough tier: %d rounds with sub-seeds seed + 7919*k' % rounds)
        except Exception:
            tb = traceback.format_exc()
            broken.append('harness exception: ' + tb[-3000:])
    for d in ctx.disagreements[:50]:
        broken.append('correspondence %s disagrees' % d['relation'])

    # a broken proof/correspondence triggers the failing-input search
    if broken and not ctx.failures and core_dir and not replay and hasattr(mod, 'search'):
        try:
            ctx.search = True
            mod.search(ctx)
        except Exception:
            ctx.notes.append('search raised: ' + traceback.format_exc()[-1500:])

    # 4. outcome ----------------------------------------------------------------
    known = core.known_findings(pid)
    seen_known = {}
    fresh = []
    for f in ctx.failures:
        hit = [s for s, _ in known if f['sig'] == s or (s.endswith('*') and f['sig'].startswith(s[:-1]))]
        if hit:
            seen_known.setdefault(hit[0], f)
        else:
            fresh.append(f)
    for sig, text in known:
        if sig in seen_known:
            log('KNOWN-FINDING: property=%s %s [%s]' % (pid, text, sig))
    # distinct fresh failures by signature
    by_sig = {}
    for f in fresh:
        by_sig.setdefault(f['sig'], f)
    for sig, f in by_sig.items():
        path = write_replay(pid, dict(property=pid, kind='failing-input', sig=sig, what=f['what'],
                                      case=core.jsonable(f['case']), broken=broken[:5]))
        violations.append((path, ''))
    if broken and not by_sig:
        path = write_replay(pid, dict(property=pid, kind='broken-obligation', broken=broken,
                                      disagreements=core.jsonable(ctx.disagreements[:5]),
                                      note='no input violating the property was found by the search; '
                                           'the named theorem / correspondence no longer checks'))
        violations.append((path, ' no-failing-input-found'))

    ev = {
        'property_id': pid, 'tier': tier, 'seed': seed, 'level': 'proof',
        'coverage': {
            'obligations': max(len(ths), 1), 'discharged': discharged,
            'checker_cmd': 'cd /verif/coq && coq_makefile -f _CoqProject -o Makefile && make -j16  '
                           '(coqc 8.16.1, full .vo build) ; Print Assumptions per theorem of Props/%s.v' % pid,
            'trusted_base': getattr(mod, 'TRUSTED', []) + [
                'Coq 8.16.1 kernel incl. vm_compute (no native_compute)',
                'hand-written Gallina model tied to /repo by the behavioural correspondence run of this check',
                'native/minipb (pybind11 stand-in) + native/build_core.py rebuild the working-tree kernels',
                'the Python harness pv/ (generators, canonicalisation, comparison)'],
            'theorems': ths,
            'axioms': axioms,
            'evaluations': ctx.evaluations,
            'distinct_nontrivial': len(ctx.nontrivial),
            'rule': getattr(mod, 'RULE', ''),
            'samples': core.jsonable(ctx.samples) or [{'theorems': ths}],
            'input_distribution': ctx.dist,
            'exhaustive': ctx.exhaustive,
            'correspondence_relations': ctx.corr_relations,
            'disagreements_checked': len(ctx.disagreements),
            'oracle_failures': len(ctx.failures),
            'known_findings_seen': sorted(seen_known),
            'partial': getattr(mod, 'PARTIAL', []),
            'refuted': getattr(mod, 'REFUTED', []),
            'not_covered': getattr(mod, 'NOT_COVERED', []),
            'notes': ctx.notes,
            'broken': broken,
        },
        'assumptions': getattr(mod, 'ASSUMPTIONS', []),
        'wall_s': round(time.time() - t0, 2),
        'violations': len(violations),
    }
    if not replay:
        write_evidence(pid, ev)
    for path, suffix in violations:
        log('VIOLATION property=%s replay=%s%s' % (pid, path, suffix))
    log('%s %s: %d theorems (%d discharged), %d evaluations, %d distinct non-trivial, '
        '%d disagreements, %d oracle failures (%d known), %.1fs'
        % (pid, tier, len(ths), discharged, ctx.evaluations, len(ctx.nontrivial),
           len(ctx.disagreements), len(ctx.failures), len(ctx.failures) - len(fresh), time.time() - t0))
    return 1 if violations else 0


def main(argv):
    args = [a for a in argv if not a.startswith('--')]
    pid = args[0].upper()
    tier = os.environ.get('VERIF_TIER') or 'quick'
    if '--tier' in argv:
        tier = argv[argv.index('--tier') + 1]
        args = [a for a in args if a != tier]
    replay = None
    if '--replay' in argv:
        replay = argv[argv.index('--replay') + 1]
    seed = int(os.environ.get('VERIF_SEED') or 0)
    if '--child' in argv:
        return child(pid, tier, seed, replay)
    cmd = [core.PY, '-m', 'pv.main', pid, '--tier', tier, '--child']
    if replay:
        cmd += ['--replay', replay]
    env = dict(os.environ)
    env['PV_RUNID'] = core.RUNID
    env.update(PYTHONPATH=VERIF + ':' + core.REPO, PYTHONHASHSEED='0', OMP_NUM_THREADS='1',
               VERIF_SEED=str(seed), PYTHONWARNINGS='ignore')
    limit = 3000 if tier == 'quick' else 4 * 3600
    t0 = time.time()
    try:
        p = subprocess.run(cmd, cwd=VERIF, env=env, timeout=limit)
        rc = p.returncode
    except subprocess.TimeoutExpired:
        rc = -999
    cur = os.path.join(VERIF, 'build', 'run', pid + core.TAG + '_' + core.RUNID + '.current.json')
    if rc in (0, 1):
        try:
            os.remove(cur)
        except OSError:
            pass
        return rc
    # abnormal termination: crash / hang of the implementation under test
    case = None
    if os.path.exists(cur):
        try:
            case = json.load(open(cur))
        except Exception:
            case = None
    path = write_replay(pid, dict(property=pid, kind='abnormal-termination', returncode=rc,
                                  what='the check process died (signal/timeout) while running the implementation',
                                  last_case=case))
    ev_path = os.path.join(VERIF, 'evidence', pid + '.json')
    write_evidence(pid, {'property_id': pid, 'tier': tier, 'seed': seed, 'level': 'proof',
                         'coverage': {'evaluations': 1, 'distinct_nontrivial': 2,
                                      'explanation': 'check process terminated abnormally rc=%s' % rc,
                                      'samples': [case]},
                         'wall_s': round(time.time() - t0, 2), 'violations': 1})
    log('VIOLATION property=%s replay=%s%s' % (pid, path, '' if case else ' no-failing-input-found'))
    return 1


if __name__ == '__main__':
    sys.exit(main(sys.argv[1:]))
