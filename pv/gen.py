"""Structured input generators shared by the property checks.  Every random
choice comes from the random.Random instance handed in (derived from
VERIF_SEED), so a run replays exactly."""
import itertools

import numpy as np
import scipy.sparse as sp

DYADIC = [-8, -4, -3, -2, -1.5, -1, -0.5, -0.25, 0.25, 0.5, 1, 1.5, 2, 3, 4, 8]
SMALLINT = [-4, -3, -2, -1, 1, 2, 3, 4]


def csr_from_rows(n, rows, dtype=float):
    """rows: list of lists of (col, val) in *storage order* (kept unsorted)."""
    indptr = [0]
    indices, data = [], []
    for r in rows:
        for j, v in r:
            indices.append(j)
            data.append(v)
        indptr.append(len(indices))
    A = sp.csr_array((np.array(data, dtype=dtype), np.array(indices, dtype=np.int32),
                      np.array(indptr, dtype=np.int32)), shape=(n, n))
    return A


def random_pattern_rows(rng, n, density, values, diag='mixed', sym=False, shuffle=True,
                        zero_prob=0.0, neg_diag_prob=0.0):
    """random square CSR rows; diag in {'all','none','mixed','zero'}"""
    ent = {}
    for i in range(n):
        for j in range(n):
            if i == j:
                continue
            if sym and j < i:
                continue
            if rng.random() < density:
                v = rng.choice(values)
                if rng.random() < zero_prob:
                    v = 0.0
                ent[(i, j)] = v
                if sym:
                    ent[(j, i)] = v
    for i in range(n):
        if diag == 'all' or (diag == 'mixed' and rng.random() < 0.8):
            ent[(i, i)] = abs(rng.choice(values)) * (2 if rng.random() < 0.5 else 1)
            if neg_diag_prob and rng.random() < neg_diag_prob:
                ent[(i, i)] = -ent[(i, i)]
        elif diag == 'zero':
            ent[(i, i)] = 0.0
        elif diag == 'mixed' and rng.random() < 0.3:
            ent[(i, i)] = 0.0
    rows = []
    for i in range(n):
        r = [(j, v) for (ii, j), v in ent.items() if ii == i]
        r.sort()
        if shuffle and rng.random() < 0.5:
            rng.shuffle(r)
        rows.append(r)
    return rows


def rows_of(A):
    A = sp.csr_array(A)
    return [[(int(A.indices[k]), A.data[k]) for k in range(A.indptr[i], A.indptr[i + 1])]
            for i in range(A.shape[0])]


def all_sym_graphs(n, loops=False):
    """every symmetric 0/1 adjacency on n nodes (as list of edge sets)"""
    pairs = [(i, j) for i in range(n) for j in range(i + 1, n)]
    for bits in itertools.product([0, 1], repeat=len(pairs)):
        yield [p for p, b in zip(pairs, bits) if b]


def graph_csr(n, edges, diag=False, weights=None, dtype=float):
    rows = [[] for _ in range(n)]
    for k, (i, j) in enumerate(edges):
        w = 1.0 if weights is None else weights[k]
        rows[i].append((j, w))
        rows[j].append((i, w))
    if diag:
        for i in range(n):
            rows[i].append((i, 1.0))
    for r in rows:
        r.sort()
    return csr_from_rows(n, rows, dtype)


def all_directed_patterns(n):
    pairs = [(i, j) for i in range(n) for j in range(n) if i != j]
    for bits in itertools.product([0, 1], repeat=len(pairs)):
        yield [p for p, b in zip(pairs, bits) if b]


def digraph_csr(n, arcs, diag=False, dtype=float):
    rows = [[] for _ in range(n)]
    for i, j in arcs:
        rows[i].append((j, 1.0))
    if diag:
        for i in range(n):
            rows[i].append((i, 1.0))
    for r in rows:
        r.sort()
    return csr_from_rows(n, rows, dtype)


def poisson_like(rng, n):
    """SPD weighted graph Laplacian + shift on a random connected graph (dense ndarray)"""
    W = np.zeros((n, n))
    for i in range(1, n):
        j = rng.randrange(i)
        W[i, j] = W[j, i] = rng.choice([0.5, 1, 2])
    for _ in range(n):
        i, j = rng.randrange(n), rng.randrange(n)
        if i != j:
            W[i, j] = W[j, i] = rng.choice([0.5, 1, 2])
    A = np.diag(W.sum(1)) - W
    A += np.diag([rng.choice([0, 0.25, 1]) for _ in range(n)])
    A[0, 0] += 0.5
    return A


def unsorted_copy(A, rng):
    """the same CSR matrix with the entries of every row stored in a shuffled order (has_sorted_indices = False)"""
    import scipy.sparse as sp
    A = sp.csr_array(A).copy()
    A.sort_indices()
    ind, dat = A.indices.copy(), A.data.copy()
    for i in range(A.shape[0]):
        lo, hi = int(A.indptr[i]), int(A.indptr[i + 1])
        perm = list(range(lo, hi))
        rng.shuffle(perm)
        ind[lo:hi], dat[lo:hi] = A.indices[perm], A.data[perm]
    B = sp.csr_array((dat, ind, A.indptr.copy()), shape=A.shape)
    B.has_sorted_indices = False
    return B
