"""Evaluate the Gallina models on harness-generated cases (vm_compute inside
coqc), in parallel shards.  The comparison with the implementation's output is
done *inside Coq* by a boolean checker, so that only the indices of failing
cases have to be read back."""
import os
import re
import subprocess
from concurrent.futures import ThreadPoolExecutor
from fractions import Fraction

from .core import COQ, RUN, TAG


# ------------------------------------------------------------------ literals
def z(i):
    i = int(i)
    return '(%d)' % i if i < 0 else '%d' % i


def q(x):
    """exact rational literal from a float/int/Fraction"""
    if isinstance(x, Fraction):
        fr = x
    elif isinstance(x, int):
        fr = Fraction(x)
    else:
        fr = Fraction(*float(x).as_integer_ratio())
    return '(Qmake %s %d%%positive)' % (z(fr.numerator), fr.denominator)


def fl(x):
    """binary64 literal (hex, exact)"""
    x = float(x)
    if x != x:
        return 'nan%float'
    if x in (float('inf'), float('-inf')):
        return ('infinity' if x > 0 else 'neg_infinity') + '%float'
    h = x.hex()
    if h.startswith('-'):
        return '(PrimFloat.opp %s%%float)' % h[1:]
    return '%s%%float' % h


def lst(items):
    return '[' + '; '.join(items) + ']'


def zl(xs):
    return lst([z(i) for i in xs])


def ql(xs):
    return lst([q(x) for x in xs])


def fll(xs):
    return lst([fl(x) for x in xs])


def b(x):
    return 'true' if x else 'false'


def pair(*xs):
    return '(' + ', '.join(xs) + ')'


# -------------------------------------------------------------------- running
def _coqc(path, timeout):
    p = subprocess.run(['timeout', str(timeout), 'coqc', '-Q', COQ, 'PV', '-w', 'none', path],
                       capture_output=True, text=True, cwd=RUN)
    return p.returncode, p.stdout, p.stderr


def parse_nat_list(out):
    m = re.search(r'=\s*\[(.*?)\]\s*(%nat)?\s*:\s*list nat', out, re.S)
    if not m:
        return None
    body = m.group(1).strip()
    if not body:
        return []
    return [int(t.replace('%nat', '').strip()) for t in body.split(';')]


def run_cases(name, header, case_type, checker, cases, shard=300, timeout=900, nproc=16):
    """cases: list of Gallina terms of type `case_type`; `checker : case_type -> bool`.
    Returns (bad_indices, errors).  errors is a list of coqc failure texts."""
    os.makedirs(RUN, exist_ok=True)
    files = []
    for k in range(0, len(cases), shard):
        path = os.path.join(RUN, '%s%s_p%d_%d.v' % (name, TAG, os.getpid(), k // shard))   # (unique per process: two runs may overlap)
        with open(path, 'w') as f:
            f.write(header + '\n')
            f.write('Definition cases : list (%s) := [\n' % case_type)
            f.write(';\n'.join(cases[k:k + shard]))
            f.write('\n].\n')
            f.write('Definition bad := bad_indices (%s) cases.\n' % checker)
            f.write('Eval vm_compute in bad.\n')
        files.append((k, path))
    bad, errors = [], []

    def one(kp):
        k, path = kp
        rc, out, err = _coqc(path, timeout)
        return k, rc, out, err
    with ThreadPoolExecutor(nproc) as ex:
        for k, rc, out, err in ex.map(one, files):
            if rc != 0:
                errors.append('shard %d: rc=%d %s' % (k, rc, err[-1500:]))
                continue
            idx = parse_nat_list(out)
            if idx is None:
                errors.append('shard %d: unparsable output %s' % (k, out[-500:]))
                continue
            bad.extend(k + i for i in idx)
    for _, path in files:
        for ext in ('.v', '.vo', '.vok', '.vos', '.glob'):
            try:
                os.remove(path[:-2] + ext)
            except OSError:
                pass
        try:
            os.remove(os.path.join(RUN, '.' + os.path.basename(path)[:-2] + '.aux'))
        except OSError:
            pass
    return sorted(bad), errors


def eval_term(name, header, term, timeout=300):
    """vm_compute one term and return Coq's printed answer (for replay files)."""
    os.makedirs(RUN, exist_ok=True)
    path = os.path.join(RUN, '%s%s_p%d.v' % (name, TAG, os.getpid()))
    with open(path, 'w') as f:
        f.write(header + '\nEval vm_compute in (%s).\n' % term)
    rc, out, err = _coqc(path, timeout)
    for ext in ('.v', '.vo', '.vok', '.vos', '.glob'):
        try:
            os.remove(path[:-2] + ext)
        except OSError:
            pass
    return ' '.join(out.split()) if rc == 0 else 'coqc failed: ' + err[-800:]
