"""Shared machinery of the checks: Coq gate/build, native rebuild, evidence,
known findings, the violation protocol (DESIGN.md section 2.5)."""
import hashlib
import json
import os
import random
import re
import subprocess
import sys
import time

VERIF = '/verif'
# development aid for seeded-change experiments only: PV_REPO points the check at a scratch worktree and PV_TAG
# keeps its scratch files / evidence / replays apart (build/mut/<tag>/).  The registered commands never set them.
REPO = os.environ.get('PV_REPO') or '/repo'
TAG = os.environ.get('PV_TAG') or ''
# one id per check invocation (parent and child share it): scratch paths carry it, so that two invocations of the
# same check running at the same time never share a file
RUNID = os.environ.get('PV_RUNID') or 'p%d' % os.getpid()
COQ = os.path.join(VERIF, 'coq')
RUN = os.path.join(COQ, 'Run')
PY = '/venv/bin/python'
GUARD = 'PYAMG_VERIF_CORE_DIR'

FORBIDDEN = re.compile(
    r'\b(Admitted|admit|Axiom|Axioms|Parameter|Parameters|Conjecture|Conjectures|'
    r'Abort|Unset\s+Guard|bypass_check|Admit\s+Obligations|native_compute|'
    r'Unset\s+Positivity|Unset\s+Universe|type-in-type|impredicative-set)\b')


def log(*a):
    print(*a, flush=True)


# ----------------------------------------------------------------- Coq side
def strip_comments(src):
    out, depth, i = [], 0, 0
    while i < len(src):
        if src.startswith('(*', i):
            depth += 1
            i += 2
        elif src.startswith('*)', i) and depth:
            depth -= 1
            i += 2
        else:
            if not depth:
                out.append(src[i])
            i += 1
    return ''.join(out)


def coq_sources():
    res = []
    for root, _, files in os.walk(COQ):
        if os.path.abspath(root).startswith(RUN):
            continue
        for f in files:
            if f.endswith('.v'):
                res.append(os.path.join(root, f))
    return sorted(res)


def gate():
    """grep gate: no Admitted/admit/Axiom/Parameter/..., no Variable/Hypothesis
    outside a Section.  Returns a list of offending 'file:line: text'."""
    bad = []
    for p in coq_sources():
        src = strip_comments(open(p).read())
        depth = 0
        for ln, line in enumerate(src.split('\n'), 1):
            if FORBIDDEN.search(line):
                bad.append('%s:%d: %s' % (p, ln, line.strip()))
            if re.match(r'\s*(Section|Module)\s+\w+', line) and ':=' not in line:
                depth += 1
            if re.match(r'\s*End\s+\w+\s*\.', line):
                depth = max(0, depth - 1)
            if depth == 0 and re.match(r'\s*(Variable|Variables|Hypothesis|Hypotheses|Context)\b', line):
                bad.append('%s:%d: %s (outside a Section)' % (p, ln, line.strip()))
    return bad


def coq_make(targets=(), timeout=1500):
    """Full .vo build of the project (no -vos).  Returns (rc, tail of log)."""
    import fcntl
    # one build at a time: checks started together (e.g. from a fresh restore) must not write the same .vo files
    with open(os.path.join(COQ, '.build.lock'), 'w') as lk:
        fcntl.flock(lk, fcntl.LOCK_EX)
        if not os.path.exists(os.path.join(COQ, 'Makefile')) or \
                os.path.getmtime(os.path.join(COQ, 'Makefile')) < os.path.getmtime(os.path.join(COQ, '_CoqProject')):
            subprocess.run(['coq_makefile', '-f', '_CoqProject', '-o', 'Makefile'], cwd=COQ,
                           capture_output=True, text=True)
        p = subprocess.run(['timeout', str(timeout), 'make', '-k', '-j16'] + list(targets), cwd=COQ,
                           capture_output=True, text=True)
    return p.returncode, (p.stdout + p.stderr)[-6000:]


def theorems_of(pid):
    path = os.path.join(COQ, 'Props', pid + '.v')
    if not os.path.exists(path):
        return []
    src = strip_comments(open(path).read())
    return re.findall(r'^\s*Theorem\s+(\w+)', src, re.M)


def coqc_file(path, timeout=600):
    p = subprocess.run(['timeout', str(timeout), 'coqc', '-Q', COQ, 'PV', '-w', 'none', path],
                       capture_output=True, text=True, cwd=RUN)
    return p.returncode, p.stdout, p.stderr


def print_assumptions(pid):
    """{theorem: 'Closed under the global context' | axiom text}, via a generated Run file."""
    ths = theorems_of(pid)
    os.makedirs(RUN, exist_ok=True)
    path = os.path.join(RUN, 'assum_%s%s_p%d.v' % (pid, TAG, os.getpid()))
    with open(path, 'w') as f:
        f.write('Require Import PV.Props.%s.\n' % pid)
        for t in ths:
            f.write('Print Assumptions %s.\n' % t)
    rc, out, err = coqc_file(path)
    for ext in ('.v', '.vo', '.vok', '.vos', '.glob'):
        try:
            os.remove(path[:-2] + ext)
        except OSError:
            pass
    try:
        os.remove(os.path.join(RUN, '.' + os.path.basename(path)[:-2] + '.aux'))
    except OSError:
        pass
    res = {}
    if rc != 0:
        return None, err[-2000:]
    # the file is quiet on load; outputs come in order
    chunks = re.split(r'(?=Closed under the global context|Axioms:)', out)
    chunks = [c.strip() for c in chunks if c.strip()]
    for t, c in zip(ths, chunks):
        res[t] = ' '.join(c.split())
    for t in ths:
        res.setdefault(t, 'unknown')
    return res, ''


# ---------------------------------------------------------------- native side
def native_build(asan=False):
    sys.path.insert(0, os.path.join(VERIF, 'native'))
    import build_core
    return build_core.build(REPO, asan=asan)


def enable_impl(core_dir):
    """Make `import pyamg` in this process use /repo's working tree with the
    rebuilt kernels."""
    os.environ[GUARD] = core_dir
    os.environ.setdefault('OMP_NUM_THREADS', '1')
    if REPO not in sys.path:
        sys.path.insert(0, REPO)
    import pyamg
    assert os.path.abspath(pyamg.__file__).startswith(REPO + '/'), pyamg.__file__
    import pyamg.amg_core.relaxation as r
    assert getattr(r, '__minipb__', False) and r.__file__.startswith(core_dir), r.__file__
    return pyamg


# ----------------------------------------------------------- known findings
def known_findings(pid):
    """[(sig, text)] of `finding:` lines for this property; `fixed:` lines suppress nothing."""
    res = []
    path = os.path.join(VERIF, 'known-findings.txt')
    if not os.path.exists(path):
        return res
    for line in open(path):
        line = line.strip()
        m = re.match(r'finding:\s+property=(\S+)\s+sig=(\S+)\s+(.*)', line)
        if m and m.group(1) == pid:
            res.append((m.group(2), m.group(3)))
    return res


# ------------------------------------------------------------------ context
class Ctx:
    def __init__(self, pid, tier, seed, core_dir=None):
        self.pid, self.tier, self.seed = pid, tier, seed
        self.rng = random.Random('%s/%s/%d' % (pid, tier, seed))
        self.core_dir = core_dir
        self.t0 = time.time()
        self.evaluations = 0
        self.nontrivial = set()
        self.samples = []
        self.dist = {}
        self.disagreements = []      # model vs implementation
        self.failures = []           # property oracle failures: dict(sig, what, case)
        self.notes = []
        self.exhaustive = False
        self.search = False
        self.corr_relations = []
        os.makedirs(os.path.join(VERIF, 'build', 'run'), exist_ok=True)
        self._mark = os.path.join(VERIF, 'build', 'run', pid + TAG + '_' + RUNID + '.current.json')

    thorough = property(lambda self: self.tier == 'thorough')

    def sub(self, name):
        return random.Random('%s/%s/%d/%s' % (self.pid, self.tier, self.seed, name))

    def count(self, key, n=1):
        self.dist[key] = self.dist.get(key, 0) + n

    def case(self, canon, nontrivial=True, sample=None):
        """register one evaluated case; `canon` is a hashable canonical form"""
        self.evaluations += 1
        if nontrivial:
            self.nontrivial.add(hashlib.sha1(repr(canon).encode()).hexdigest())
        if sample is not None and len(self.samples) < 6:
            self.samples.append(sample)

    def mark(self, case):
        try:
            with open(self._mark, 'w') as f:
                json.dump(case, f, default=str)
        except Exception:
            pass

    def disagree(self, relation, case, model, impl):
        self.disagreements.append(dict(relation=relation, case=case, model=model, impl=impl))

    def fail(self, sig, what, case):
        self.failures.append(dict(sig=sig, what=what, case=case))


def jsonable(x):
    import numpy as np
    if isinstance(x, dict):
        return {str(k): jsonable(v) for k, v in x.items()}
    if isinstance(x, (list, tuple)):
        return [jsonable(v) for v in x]
    if isinstance(x, np.ndarray):
        return jsonable(x.tolist())
    if isinstance(x, (np.integer,)):
        return int(x)
    if isinstance(x, (np.floating,)):
        return float(x)
    if isinstance(x, (complex, np.complexfloating)):
        return [float(x.real), float(x.imag)]
    if isinstance(x, (np.bool_,)):
        return bool(x)
    if isinstance(x, (str, int, float, bool)) or x is None:
        return x
    return repr(x)
