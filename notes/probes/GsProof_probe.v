From Coq Require Import ZArith List Lia Ring Field Setoid.
Import ListNotations.
Require Import P.GsModel_probe.

Section Proofs.
Variable F : Type.
Variables (r0 r1 : F) (radd rmul rsub : F -> F -> F) (ropp : F -> F) (rdiv : F -> F -> F) (rinv : F -> F).
Variable iszb : F -> bool.
Hypothesis Fth : field_theory r0 r1 radd rmul rsub ropp rdiv rinv (@eq F).
Hypothesis isz_spec : forall a, iszb a = true <-> a = r0.
Add Field Ff : Fth.
Let o : Ops F := {| zero := r0; add := radd; sub := rsub; mul := rmul; div := rdiv; isz := iszb |}.
Notation "a + b" := (radd a b). Notation "a * b" := (rmul a b). Notation "a - b" := (rsub a b). Notation "a / b" := (rdiv a b).

(* abstract meaning of a CSR row segment: sum over positions jj in [p, p+c) with column <> i *)
Fixpoint offsum (Aj:list Z) (Ax x:list F) (i:Z) (p c:nat) : F :=
  match c with O => r0 | S c' =>
    let j := nth p Aj 0%Z in
    (if Z.eqb i j then r0 else nth p Ax r0 * nthZ x j r0) + offsum Aj Ax x i (S p) c' end.
(* last diagonal entry in the segment, if any *)
Fixpoint lastdiag (Aj:list Z) (Ax:list F) (i:Z) (p c:nat) (d:F) : F :=
  match c with O => d | S c' =>
    lastdiag Aj Ax i (S p) c' (if Z.eqb i (nth p Aj 0%Z) then nth p Ax r0 else d) end.

Lemma row_spec Aj Ax x i c : forall p rs d,
  row o Aj Ax x i p c rs d = (rs + offsum Aj Ax x i p c, lastdiag Aj Ax i p c d).
Proof.
induction c as [|c IH]; intros p rs d; cbn [row offsum lastdiag].
- f_equal. ring.
- destruct (Z.eqb i (nth p Aj 0%Z)) eqn:E.
  + rewrite IH. f_equal. cbn [zero mul add o]. ring.
  + rewrite IH. f_equal. cbn [zero mul add o]. ring.
Qed.

(* nth / upd facts *)
Lemma nth_upd_same {A} (l:list A) i v d : (i < length l)%nat -> nth i (upd l i v) d = v.
Proof. revert i; induction l as [|h t IH]; intros [|i] H; cbn in *; try lia; auto. apply IH; lia. Qed.
Lemma nth_upd_other {A} (l:list A) i k v d : i <> k -> nth k (upd l i v) d = nth k l d.
Proof. revert i k; induction l as [|h t IH]; intros [|i] [|k] H; cbn; auto; try congruence. Qed.
Lemma length_upd {A} (l:list A) i v : length (upd l i v) = length l.
Proof. revert i; induction l as [|h t IH]; intros [|i]; cbn; auto. Qed.

(* offsum does not look at x[i] *)
Lemma offsum_upd Aj Ax x i v c : forall p, (0 <= i)%Z ->
  (forall q, (p <= q < p + c)%nat -> (0 <= nth q Aj 0%Z)%Z) ->
  offsum Aj Ax (upd x (Z.to_nat i) v) i p c = offsum Aj Ax x i p c.
Proof.
induction c as [|c IH]; intros p Hi Hpos; cbn [offsum]; auto.
rewrite IH by (auto; intros; apply Hpos; lia).
destruct (Z.eqb i (nth p Aj 0%Z)) eqn:E; auto.
f_equal. f_equal. unfold nthZ. apply nth_upd_other.
apply Z.eqb_neq in E. specialize (Hpos p ltac:(lia)). intro H. apply E.
apply Z2Nat.inj in H; lia.
Qed.

(* the row equation after relaxing row i *)
Theorem gs_row_equation Ap Aj Ax b x i :
  (0 <= i)%Z -> (Z.to_nat i < length x)%nat ->
  let s := Z.to_nat (nthZ Ap i 0%Z) in let c := Z.to_nat (nthZ Ap (i+1) 0%Z - nthZ Ap i 0%Z) in
  (forall q, (s <= q < s + c)%nat -> (0 <= nth q Aj 0%Z)%Z) ->
  let d := lastdiag Aj Ax i s c r0 in
  let x' := gs_row o Ap Aj Ax b x i in
  (d <> r0 -> d * nthZ x' i r0 + offsum Aj Ax x' i s c = nthZ b i r0) /\
  (d = r0 -> x' = x) /\
  (forall k, k <> Z.to_nat i -> nth k x' r0 = nth k x r0).
Proof.
intros Hi Hlen s c Hpos d x'. subst x'. unfold gs_row. fold s. fold c.
rewrite row_spec. unfold o. cbn [zero add sub mul div isz]. fold d.
destruct (iszb d) eqn:Ez.
- apply isz_spec in Ez. split; [intros H; exfalso; apply H; exact Ez|]. split; [reflexivity|]. intros; reflexivity.
- assert (Hd : d <> r0) by (intro H; apply isz_spec in H; congruence).
  split; [|split].
  + intros _. rewrite offsum_upd by auto. unfold nthZ at 1. rewrite nth_upd_same by auto.
    field. exact Hd.
  + intros H; congruence.
  + intros k Hk. apply nth_upd_other. congruence.
Qed.
End Proofs.
Print Assumptions gs_row_equation.
