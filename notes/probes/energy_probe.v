From mathcomp Require Import all_ssreflect all_algebra.
From mathcomp Require Import ring.
Set Implicit Arguments. Unset Strict Implicit. Unset Printing Implicit Defensive.
Import GRing.Theory Num.Theory.
Local Open Scope ring_scope.

Section Energy.
Variable F : realFieldType.
Variable n : nat.
Variable A : 'M[F]_n.
Hypothesis Asym : A^T = A.
Hypothesis Apsd : forall x : 'cV[F]_n, 0 <= (x^T *m A *m x) 0 0.

Definition sc (M : 'M[F]_1) : F := M 0 0.
Lemma scD M N : sc (M + N) = sc M + sc N. Proof. by rewrite /sc mxE. Qed.
Lemma scB M N : sc (M - N) = sc M - sc N. Proof. by rewrite /sc !mxE. Qed.
Lemma scT M : sc M^T = sc M. Proof. by rewrite /sc mxE. Qed.
Definition en (x : 'cV[F]_n) : F := sc (x^T *m A *m x).
Definition ip (x y : 'cV[F]_n) : F := sc (x^T *m A *m y).

Lemma ip_sym x y : ip x y = ip y x.
Proof.
rewrite /ip.
have -> : y^T *m A *m x = (x^T *m A *m y)^T by rewrite !trmx_mul trmxK Asym mulmxA.
by rewrite scT.
Qed.

Lemma en_add x y : en (x + y) = en x + 2%:R * ip x y + en y.
Proof.
rewrite /en /ip.
have -> : (x + y)^T = x^T + y^T by rewrite linearD.
rewrite !mulmxDl !mulmxDr !scD.
have -> : sc (y^T *m A *m x) = sc (x^T *m A *m y) by apply: (ip_sym y x).
set a := sc (x^T *m A *m x); set b := sc (x^T *m A *m y); set c := sc (y^T *m A *m y).
ring.
Qed.

(* A-orthogonal decomposition: if ip (e - p) p = 0 then en (e - p) <= en e *)
Lemma orth_nonexp (e p : 'cV[F]_n) : ip (e - p) p = 0 -> en (e - p) <= en e.
Proof.
move=> H.
have -> : en e = en ((e - p) + p) by rewrite subrK.
rewrite [X in _ <= X]en_add H mulr0 addr0 ler_addl. exact: Apsd.
Qed.

Variable k : nat.
Variable E : 'M[F]_(n,k).
Let G := E^T *m A *m E.
Hypothesis Gunit : G \in unitmx.

Definition proj (e : 'cV[F]_n) : 'cV[F]_n := E *m (invmx G *m (E^T *m (A *m e))).

Lemma Gsym : G^T = G.
Proof. by rewrite /G !trmx_mul trmxK Asym mulmxA. Qed.

Lemma proj_orth e : ip (e - proj e) (proj e) = 0.
Proof.
rewrite /ip.
have -> : (e - proj e)^T = e^T - (proj e)^T by rewrite linearB.
rewrite !mulmxBl scB.
apply/eqP; rewrite subr_eq0; apply/eqP.
congr sc.
rewrite /proj.
rewrite !trmx_mul trmxK Asym.
(* (e^T A E G^-T ... ) *)
have GiT : (invmx G)^T = invmx G by rewrite trmx_inv Gsym.
rewrite GiT.
rewrite -!mulmxA.
congr (_ *m (_ *m (_ *m _))).
set Y := E^T *m (A *m e).
rewrite [in RHS](mulmxA E^T) [in RHS](mulmxA (E^T *m A)) -/G [in RHS](mulmxA G) mulmxV // mul1mx.
by [].
Qed.

Theorem proj_A_nonexp e : en (e - proj e) <= en e.
Proof. apply: orth_nonexp. exact: proj_orth. Qed.
End Energy.
Print Assumptions proj_A_nonexp.
