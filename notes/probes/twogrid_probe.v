From mathcomp Require Import all_ssreflect all_algebra.
From mathcomp Require Import ring.
Set Implicit Arguments. Unset Strict Implicit. Unset Printing Implicit Defensive.
Import GRing.Theory Num.Theory.
Local Open Scope ring_scope.

Section Quad.
Variable F : realFieldType.
Definition sc (M : 'M[F]_1) : F := M 0 0.
Lemma scD M N : sc (M + N) = sc M + sc N. Proof. by rewrite /sc mxE. Qed.
Lemma scB M N : sc (M - N) = sc M - sc N. Proof. by rewrite /sc !mxE. Qed.
Lemma scT M : sc M^T = sc M. Proof. by rewrite /sc mxE. Qed.

Section One.
Variable n : nat.
Variable A : 'M[F]_n.
Definition ip (x y : 'cV[F]_n) : F := sc (x^T *m A *m y).
Definition en (x : 'cV[F]_n) : F := ip x x.
Hypothesis Asym : A^T = A.
Lemma ip_sym x y : ip x y = ip y x.
Proof.
rewrite /ip.
have -> : y^T *m A *m x = (x^T *m A *m y)^T by rewrite !trmx_mul trmxK Asym mulmxA.
by rewrite scT.
Qed.
Lemma ipDl x y z : ip (x + y) z = ip x z + ip y z.
Proof. by rewrite /ip linearD /= !mulmxDl scD. Qed.
Lemma ipDr x y z : ip x (y + z) = ip x y + ip x z.
Proof. by rewrite /ip mulmxDr scD. Qed.
Lemma en_add x y : en (x + y) = en x + 2%:R * ip x y + en y.
Proof.
rewrite /en ipDl !ipDr (ip_sym y x).
set a := ip x x; set b := ip x y; set c := ip y y. ring.
Qed.
End One.

(* coarse-grid correction with an inexact coarse solve Mc *)
Section TwoGrid.
Variables n m : nat.
Variable A : 'M[F]_n.
Variable P : 'M[F]_(n,m).
Hypothesis Asym : A^T = A.
Hypothesis Apsd : forall x : 'cV[F]_n, 0 <= en A x.
Let Ac : 'M[F]_m := P^T *m A *m P.
Hypothesis Acunit : Ac \in unitmx.
Variable Mc : 'M[F]_m.
(* induction hypothesis: the coarse iteration  w |-> (1 - Mc Ac) w  is Ac-nonexpansive *)
Hypothesis Hc : forall w : 'cV[F]_m, en Ac (w - Mc *m (Ac *m w)) <= en Ac w.

Lemma Ac_sym : Ac^T = Ac.
Proof. by rewrite /Ac !trmx_mul trmxK Asym mulmxA. Qed.

(* energy of a prolongated vector is the coarse energy *)
Lemma ip_P (u v : 'cV[F]_m) : ip A (P *m u) (P *m v) = ip Ac u v.
Proof. by rewrite /ip /Ac trmx_mul !mulmxA. Qed.

Lemma ip_Pr (x : 'cV[F]_n) (v : 'cV[F]_m) : ip A x (P *m v) = sc ((P^T *m (A *m x))^T *m v).
Proof. by rewrite /ip !trmx_mul trmxK Asym !mulmxA. Qed.

Theorem inexact_cgc_nonexp (e : 'cV[F]_n) :
  en A (e - P *m (Mc *m (P^T *m (A *m e)))) <= en A e.
Proof.
set rc := P^T *m (A *m e).
set w := invmx Ac *m rc.                       (* exact coarse error *)
have Hw : Ac *m w = rc by rewrite /w mulKVmx.
set q := e - P *m w.                            (* (I - pi) e *)
have Horth : forall v, ip A q (P *m v) = 0.
{ move=> v. rewrite ip_Pr /q mulmxBr mulmxBr -/rc.
  have -> : P^T *m (A *m (P *m w)) = Ac *m w by rewrite /Ac !mulmxA.
  by rewrite Hw subrr trmx0 mul0mx /sc mxE. }
have He : e = q + P *m w by rewrite /q subrK.
have Ht : e - P *m (Mc *m rc) = q + P *m (w - Mc *m (Ac *m w)).
{ by rewrite Hw mulmxBr addrA /q subrK. }
rewrite Ht [X in _ <= en A X]He !en_add // !Horth !mulr0 !addr0.
rewrite ler_add2l /en !ip_P. exact: Hc.
Qed.
End TwoGrid.
End Quad.
Print Assumptions inexact_cgc_nonexp.
