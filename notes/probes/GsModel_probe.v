From Coq Require Import ZArith List QArith PrimFloat.
Import ListNotations.
Record Ops (F:Type) := { zero:F; add:F->F->F; sub:F->F->F; mul:F->F->F; div:F->F->F; isz:F->bool }.
Arguments zero {F}. Arguments add {F}. Arguments sub {F}. Arguments mul {F}. Arguments div {F}. Arguments isz {F}.
Definition opsQ : Ops Q := {| zero:=0; add:=fun a b=>Qred (a+b); sub:=fun a b=>Qred(a-b); mul:=fun a b=>Qred(a*b); div:=fun a b=>Qred(a/b); isz:=fun a=> Qeq_bool a 0 |}.
Definition opsF : Ops float := {| zero:=0%float; add:=PrimFloat.add; sub:=PrimFloat.sub; mul:=PrimFloat.mul; div:=PrimFloat.div; isz:=fun a=> PrimFloat.eqb a 0%float |}.
Section K.
Context {F:Type} (o:Ops F).
Definition nthZ {A} (l:list A) (i:Z) (d:A) := nth (Z.to_nat i) l d.
Fixpoint upd {A} (l:list A) (i:nat) (v:A) := match l,i with [],_ => [] | _::t,O => v::t | h::t,S k => h::upd t k v end.
(* one row: returns (rsum, diag) *)
Fixpoint row (Aj:list Z) (Ax:list F) (x:list F) (i:Z) (jj:nat) (cnt:nat) (rsum diag:F) : F*F :=
  match cnt with O => (rsum,diag) | S c =>
    let j := nth jj Aj 0%Z in let a := nth jj Ax o.(zero) in
    if Z.eqb i j then row Aj Ax x i (S jj) c rsum a
    else row Aj Ax x i (S jj) c (o.(add) rsum (o.(mul) a (nthZ x j o.(zero)))) diag end.
Definition gs_row (Ap Aj:list Z) (Ax b:list F) (x:list F) (i:Z) : list F :=
  let s := nthZ Ap i 0%Z in let e := nthZ Ap (i+1) 0%Z in
  let '(rsum,diag) := row Aj Ax x i (Z.to_nat s) (Z.to_nat (e-s)) o.(zero) o.(zero) in
  if o.(isz) diag then x else upd x (Z.to_nat i) (o.(div) (o.(sub) (nthZ b i o.(zero)) rsum) diag).
Definition sweep (Ap Aj:list Z) (Ax b x:list F) (rows:list Z) := fold_left (fun x i => gs_row Ap Aj Ax b x i) rows x.
End K.
