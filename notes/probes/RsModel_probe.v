From Coq Require Import ZArith List Bool.
Import ListNotations.
Open Scope Z_scope.

Definition get (l : list Z) (i : Z) : Z := nth (Z.to_nat i) l 0.
Fixpoint setn (l : list Z) (i : nat) (v : Z) : list Z :=
  match l, i with [], _ => [] | _ :: t, O => v :: t | h :: t, S k => h :: setn t k v end.
Definition set (l : list Z) (i : Z) (v : Z) : list Z := setn l (Z.to_nat i) v.
Definition zseq (a b : Z) : list Z := map (fun k => a + Z.of_nat k) (seq 0 (Z.to_nat (b - a))).

Definition F_NODE := 0. Definition C_NODE := 1. Definition U_NODE := 2. Definition PRE_F_NODE := 3.

Record st := { lam : list Z; iptr : list Z; icnt : list Z; i2n : list Z; n2i : list Z; spl : list Z }.

(* the three-statement swap of the C code *)
Definition swap_pos (s : st) (old_pos new_pos : Z) : st :=
  let n2i1 := set (n2i s) (get (i2n s) old_pos) new_pos in
  let n2i2 := set n2i1 (get (i2n s) new_pos) old_pos in
  let a := get (i2n s) old_pos in let b := get (i2n s) new_pos in
  let i2n' := set (set (i2n s) old_pos b) new_pos a in
  {| lam := lam s; iptr := iptr s; icnt := icnt s; i2n := i2n'; n2i := n2i2; spl := spl s |}.

Definition incr_lambda (n : Z) (s : st) (k : Z) : st :=
  if negb (get (spl s) k =? U_NODE) then s else
  if get (lam s) k >=? n - 1 then s else
  let lk := get (lam s) k in
  let old_pos := get (n2i s) k in
  let new_pos := get (iptr s) lk + get (icnt s) lk - 1 in
  let s1 := swap_pos s old_pos new_pos in
  let c1 := set (icnt s1) lk (get (icnt s1) lk - 1) in
  let c2 := set c1 (lk + 1) (get c1 (lk + 1) + 1) in
  {| lam := set (lam s1) k (lk + 1); iptr := set (iptr s1) (lk + 1) new_pos; icnt := c2;
     i2n := i2n s1; n2i := n2i s1; spl := spl s1 |}.

Definition decr_lambda (s : st) (j : Z) : st :=
  if negb (get (spl s) j =? U_NODE) then s else
  if get (lam s) j =? 0 then s else
  let lj := get (lam s) j in
  let old_pos := get (n2i s) j in
  let new_pos := get (iptr s) lj in
  let s1 := swap_pos s old_pos new_pos in
  let c1 := set (icnt s1) lj (get (icnt s1) lj - 1) in
  let c2 := set c1 (lj - 1) (get c1 (lj - 1) + 1) in
  let p1 := set (iptr s1) lj (get (iptr s1) lj + 1) in
  let p2 := set p1 (lj - 1) (get p1 lj - get c2 (lj - 1)) in
  {| lam := set (lam s1) j (lj - 1); iptr := p2; icnt := c2; i2n := i2n s1; n2i := n2i s1; spl := spl s1 |}.

Definition with_spl (s : st) (v : list Z) : st :=
  {| lam := lam s; iptr := iptr s; icnt := icnt s; i2n := i2n s; n2i := n2i s; spl := v |}.

Section RS.
Variables (n : Z) (Sp Sj Tp Tj infl : list Z).
Definition row (P J : list Z) (i : Z) : list Z := map (get J) (zseq (get P i) (get P (i + 1))).

Definition make_C (s : st) (i : Z) : st :=
  let s1 := with_spl s (set (spl s) i C_NODE) in
  (* tentative F points *)
  let s2 := fold_left (fun s j => if get (spl s) j =? U_NODE then with_spl s (set (spl s) j PRE_F_NODE) else s) (row Tp Tj i) s1 in
  let s3 := fold_left (fun s j =>
              if get (spl s) j =? PRE_F_NODE then
                let s' := with_spl s (set (spl s) j F_NODE) in
                fold_left (incr_lambda n) (row Sp Sj j) s'
              else s) (row Tp Tj i) s2 in
  fold_left decr_lambda (row Sp Sj i) s3.

(* main loop, top_index = n-1 downto 0 with `break` *)
Fixpoint main (tops : list Z) (s : st) : st :=
  match tops with
  | [] => s
  | top :: rest =>
    let i := get (i2n s) top in
    let li := get (lam s) i in
    let s1 := {| lam := lam s; iptr := iptr s; icnt := set (icnt s) li (get (icnt s) li - 1);
                 i2n := i2n s; n2i := n2i s; spl := spl s |} in
    if get (lam s1) i <=? 0 then s1
    else if get (spl s1) i =? U_NODE then main rest (make_C s1 i) else main rest s1
  end.

Definition init : st :=
  let nodes := zseq 0 n in
  let lambda := map (fun i => get Tp (i + 1) - get Tp i + get infl i) nodes in
  let lmax0 := fold_left Z.max lambda 0 in
  let lmax := Z.max (2 * lmax0) (n + 1) in
  let zeros := map (fun _ => 0) (zseq 0 lmax) in
  let cnt := fold_left (fun c i => set c (get lambda i) (get c (get lambda i) + 1)) nodes zeros in
  let '(ptr, _) := fold_left (fun '(p, cum) l => (set p l cum, cum + get cnt l)) (zseq 0 lmax) (zeros, 0) in
  let zn := map (fun _ => 0) nodes in
  let '(c2, i2n0, n2i0) := fold_left (fun '(c, a, b) i =>
        let l := get lambda i in let idx := get ptr l + get c l in
        (set c l (get c l + 1), set a idx i, set b i idx)) nodes (zeros, zn, zn) in
  let spl0 := map (fun i => if (get lambda i =? 0) || ((get lambda i =? 1) && (get Tj (get Tp i) =? i)) then F_NODE else U_NODE) nodes in
  {| lam := lambda; iptr := ptr; icnt := c2; i2n := i2n0; n2i := n2i0; spl := spl0 |}.

Definition rs_cf_splitting : list Z :=
  let s := main (rev (zseq 0 n)) init in
  map (fun v => if v =? U_NODE then F_NODE else v) (spl s).
End RS.
