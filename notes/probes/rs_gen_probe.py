import numpy as np, itertools, sys
sys.path.insert(0,'/repo')
from pyamg import amg_core
def graphs():
    for n in range(1,5):
        pairs=[(i,j) for i in range(n) for j in range(n) if i!=j]
        for mask in range(1<<len(pairs)):
            yield n,[p for k,p in enumerate(pairs) if mask>>k&1]
    n=5; pairs=[(i,j) for i in range(n) for j in range(i+1,n)]
    for mask in range(1<<len(pairs)):
        e=[p for k,p in enumerate(pairs) if mask>>k&1]; yield n,e+[(j,i) for i,j in e]
def csr(n,edges):
    rows=[[] for _ in range(n)]
    for i,j in edges: rows[i].append(j)
    p=[0];J=[]
    for r in rows: J+=sorted(r); p.append(len(J))
    return p,J
def zl(l): return "["+";".join(str(v) for v in l)+"]"
cases=[];impl=[]
for n,e in graphs():
    Sp,Sj=csr(n,e); Tp,Tj=csr(n,[(j,i) for i,j in e])
    spl=np.empty(n,dtype=np.int32)
    amg_core.rs_cf_splitting(n,np.array(Sp,dtype=np.int32),np.array(Sj,dtype=np.int32),np.array(Tp,dtype=np.int32),np.array(Tj,dtype=np.int32),np.zeros(n,dtype=np.int32),spl)
    impl.append(spl.tolist()); cases.append((n,Sp,Sj,Tp,Tj))
shard=700
import json
json.dump(impl,open('impl.json','w'))
for k in range(0,len(cases),shard):
    with open(f'cases{k//shard}.v','w') as f:
        f.write("From Coq Require Import ZArith List.\nImport ListNotations.\nRequire Import RS.RsModel.\nOpen Scope Z_scope.\n")
        f.write("Eval vm_compute in [\n"+";\n".join(f"rs_cf_splitting {n} {zl(Sp)} {zl(Sj)} {zl(Tp)} {zl(Tj)} {zl([0]*n)}" for n,Sp,Sj,Tp,Tj in cases[k:k+shard])+"].\n")
print(len(cases))
