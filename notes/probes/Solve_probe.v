From Coq Require Import List Arith Lia Bool.
Import ListNotations.

Section Solve.
Variables (V F : Type).
Variable ltb : F -> F -> bool.          (* the code's  normr < tol*normb  *)
Variable cyc : V -> V.                  (* one multigrid cycle (or 1-level coarse solve) *)
Variable rn  : V -> F.                  (* ||b - A x|| as the code computes it *)
Variable thr : F.                       (* tol * normb *)
Variable maxiter : nat.

Record result := { rx : V; rstatus : nat; rres : list F; rcb : list V }.

(* mirrors the `while True:` body of MultilevelSolver.solve; fuel makes it total *)
Fixpoint loop (fuel it : nat) (x : V) (res : list F) (cb : list V) : option result :=
  match fuel with
  | O => None
  | S f =>
    let x' := cyc x in
    let it' := S it in
    let r := rn x' in
    let res' := res ++ [r] in
    let cb' := cb ++ [x'] in
    if ltb r thr then Some {| rx := x'; rstatus := 0; rres := res'; rcb := cb' |}
    else if Nat.eqb it' maxiter then Some {| rx := x'; rstatus := it'; rres := res'; rcb := cb' |}
    else loop f it' x' res' cb'
  end.

Definition solve (x0 : V) : option result := loop maxiter 0 x0 [rn x0] [].

Fixpoint iter (k : nat) (x : V) : V := match k with O => x | S k' => iter k' (cyc x) end.
Definition iterates (k : nat) (x0 : V) : list V := map (fun j => iter (S j) x0) (seq 0 k).

Lemma iter_S k x : iter (S k) x = cyc (iter k x).
Proof. revert x; induction k as [|k IH]; intros x; cbn in *; auto. Qed.

Lemma iterates_S k x0 : iterates (S k) x0 = iterates k x0 ++ [iter (S k) x0].
Proof. unfold iterates. rewrite seq_S, map_app. reflexivity. Qed.

(* invariant-carrying specification of the loop *)
Lemma loop_spec : forall fuel it x0,
  it + fuel = maxiter -> 1 <= fuel ->
  (forall j, j < it -> ltb (rn (iter (S j) x0)) thr = false) ->
  exists k st,
    loop fuel it (iter it x0) (rn x0 :: map rn (iterates it x0)) (iterates it x0)
      = Some {| rx := iter k x0; rstatus := st;
                rres := rn x0 :: map rn (iterates k x0); rcb := iterates k x0 |}
    /\ it < k <= maxiter
    /\ (forall j, j < k - 1 -> ltb (rn (iter (S j) x0)) thr = false)
    /\ (st = 0 <-> ltb (rn (iter k x0)) thr = true)
    /\ (st <> 0 -> st = k /\ k = maxiter).
Proof.
induction fuel as [|f IH]; intros it x0 Hsum Hf Hprev; [lia|].
cbn [loop]. rewrite <- iter_S.
assert (Hres : (rn x0 :: map rn (iterates it x0)) ++ [rn (iter (S it) x0)]
               = rn x0 :: map rn (iterates (S it) x0)).
{ rewrite iterates_S, map_app. reflexivity. }
rewrite Hres, <- iterates_S.
destruct (ltb (rn (iter (S it) x0)) thr) eqn:E.
- exists (S it), 0. split; [reflexivity|]. split; [lia|]. split.
  + intros j Hj. apply Hprev. lia.
  + split; [tauto|]. intros H; congruence.
- destruct (Nat.eqb (S it) maxiter) eqn:Em.
  + apply Nat.eqb_eq in Em. exists (S it), (S it). split; [reflexivity|]. split; [lia|]. split.
    * intros j Hj. apply Hprev. lia.
    * split; [split; [discriminate | congruence] | intros _; split; [reflexivity | exact Em]].
  + apply Nat.eqb_neq in Em.
    destruct (IH (S it) x0) as (k & st & Hl & Hk & Hp & Hs & Hn); try lia.
    { intros j Hj. destruct (Nat.eq_dec j it) as [->|]; [exact E | apply Hprev; lia]. }
    exists k, st. split; [exact Hl|]. split; [lia|]. auto.
Qed.

Theorem C01_solve_spec x0 : 1 <= maxiter ->
  exists k st,
    solve x0 = Some {| rx := iter k x0; rstatus := st;
                       rres := map rn (x0 :: iterates k x0); rcb := iterates k x0 |}
    /\ 1 <= k <= maxiter                                    (* at most maxiter cycles, fuel suffices *)
    /\ (forall j, j < k - 1 -> ltb (rn (iter (S j) x0)) thr = false)  (* stops at the first success *)
    /\ (st = 0 <-> ltb (rn (iter k x0)) thr = true)          (* success reported iff last residual passes *)
    /\ (st <> 0 -> st = k /\ k = maxiter).                   (* otherwise the cycle count *)
Proof.
intros Hm. unfold solve.
destruct (loop_spec maxiter 0 x0) as (k & st & Hl & Hk & Hp & Hs & Hn); try lia.
exists k, st. cbn [map]. split; [exact Hl|]. split; [lia|]. split; [exact Hp|]. split; [exact Hs|exact Hn].
Qed.

Corollary C01_history_length x0 r : solve x0 = Some r -> length (rres r) = S (length (rcb r)).
Proof.
destruct maxiter as [|m] eqn:Em; [unfold solve; rewrite Em; discriminate|].
intros H. destruct (C01_solve_spec x0) as (k & st & Hl & _); [lia|].
rewrite Hl in H. inversion H; subst r; cbn. now rewrite map_length.
Qed.
End Solve.
Print Assumptions C01_solve_spec.
(* non-vacuity: a concrete run *)
Example ex_run : solve nat nat Nat.ltb (fun x => x / 2) (fun x => x) 3 10 100
  = Some {| rx := 1; rstatus := 0; rres := [100; 50; 25; 12; 6; 3; 1]; rcb := [50; 25; 12; 6; 3; 1] |}.
Proof. vm_compute. reflexivity. Qed.
